#!/usr/bin/env python3
"""verify_seed.py <id> [...]: independently confirm a seeded change from /tmp/seed-out/<id>/:
 (a) demo passes on the unmodified tree, (b) demo fails with the change, (c) the existing tests
 named in meta.json still pass with the change. On success copy it to /verif/seeded/<id>/."""
import json, os, re, shutil, subprocess, sys, time
HERE = os.path.dirname(os.path.dirname(os.path.abspath(__file__)))
TARGET = "/tmp/seedv-target"

def run(cmd, cwd, log):
    env = dict(os.environ, CARGO_TARGET_DIR=TARGET, CARGO_NET_OFFLINE="true")
    log.write("\n$ %s\n" % cmd); log.flush()
    r = subprocess.run(cmd, shell=True, cwd=cwd, env=env, stdout=subprocess.PIPE, stderr=subprocess.STDOUT, text=True)
    tail = "\n".join(r.stdout.splitlines()[-25:])
    log.write(tail + "\n[exit %d]\n" % r.returncode); log.flush()
    return r.returncode, r.stdout

def cargo_cmds(text):
    out = []
    for seg in re.split(r";|&&|\(|\)|Also:", text or ""):
        seg = seg.strip()
        seg = re.sub(r"^CARGO_TARGET_DIR=\S+\s+", "", seg)
        if seg.startswith("cargo test"):
            seg = re.sub(r"-p aranya-tcp-syncer", "", seg)
            seg = seg.replace("-j 6", "-j 8")
            if "-p " in seg:
                out.append(seg.strip())
    return out

def verify(sid):
    src = "/tmp/seed-out/%s" % sid
    meta = json.load(open(os.path.join(src, "meta.json")))
    os.makedirs(os.path.join(HERE, ".cache", "seedverify"), exist_ok=True)
    log = open(os.path.join(HERE, ".cache", "seedverify", sid + ".log"), "w")
    wt = "/tmp/seedv-%s" % sid
    subprocess.run(["git", "-C", "/repo", "worktree", "remove", "--force", wt], stderr=subprocess.DEVNULL)
    subprocess.check_call(["git", "-C", "/repo", "worktree", "add", "-q", "--detach", wt, "HEAD"])
    res = {"id": sid, "repo_commit": subprocess.check_output(["git", "-C", "/repo", "rev-parse", "--short", "HEAD"], text=True).strip()}
    try:
        for f in ("patch.diff", "demo.diff"):
            rc, _ = run("git apply --check %s/%s" % (src, f), wt, log)
            if rc != 0:
                res["error"] = "%s does not apply to HEAD" % f
                return res
        demo = meta["demo_cmd"]
        demo = re.sub(r"^CARGO_TARGET_DIR=\S+\s+", "", demo)
        run("git apply %s/demo.diff" % src, wt, log)
        rc, out = run(demo, wt, log)
        res["demo_on_clean"] = "pass" if rc == 0 else "FAIL"
        run("git apply %s/patch.diff" % src, wt, log)
        rc, out = run(demo, wt, log)
        res["demo_with_change"] = "fail" if rc != 0 else "PASS(unexpected)"
        m = re.findall(r"(panicked at[^\n]*\n[^\n]*|test result: FAILED[^\n]*)", out)
        res["demo_failure"] = m[:2]
        run("git apply -R %s/demo.diff" % src, wt, log)
        ex = cargo_cmds(meta.get("existing_tests_cmd", ""))
        if not ex:
            crates = sorted({p.split("/")[1] for p in meta.get("files_changed", []) if p.startswith("crates/")})
            ex = ["cargo test --offline -j 8 " + " ".join("-p " + c for c in crates)]
        res["existing_cmds"] = ex
        okall = True
        for c in ex[:3]:
            rc, out = run(c, wt, log)
            okall = okall and rc == 0
        res["existing_with_change"] = "pass" if okall else "FAIL"
        res["verified"] = res["demo_on_clean"] == "pass" and res["demo_with_change"] == "fail" and okall
        if res["verified"]:
            dst = os.path.join(HERE, "seeded", sid)
            os.makedirs(dst, exist_ok=True)
            shutil.copy(os.path.join(src, "patch.diff"), dst)
            shutil.copy(os.path.join(src, "demo.diff"), dst)
            meta2 = dict(meta)
            meta2["verification"] = {"by": "tools/verify_seed.py in a scratch worktree of /repo@%s" % res["repo_commit"],
                                     "demo_on_unmodified": "pass", "demo_with_change": "fail", "demo_failure": res["demo_failure"],
                                     "existing_tests_with_change": "pass", "existing_cmds_run": ex[:3], "when": time.strftime("%Y-%m-%d %H:%M UTC", time.gmtime())}
            json.dump(meta2, open(os.path.join(dst, "meta.json"), "w"), indent=1)
        return res
    finally:
        subprocess.run(["git", "-C", "/repo", "worktree", "remove", "--force", wt])
        log.close()

if __name__ == "__main__":
    for sid in sys.argv[1:]:
        try:
            r = verify(sid)
        except Exception as e:
            r = {"id": sid, "error": repr(e)}
        print(json.dumps(r)); sys.stdout.flush()
    # keep the shared target dir for later runs; remove with: rm -rf /tmp/seedv-target
