#!/usr/bin/env python3
"""show.py <crate> <fn-pattern> : pretty-print the extracted MIR of matching functions."""
import sys, os, json
sys.path.insert(0, os.path.dirname(os.path.dirname(os.path.abspath(__file__))))
from rules.core.facts import Facts, Operand, Place, Stmt

def rv_str(rv):
    k = rv[0]
    if k == "use": return repr(Operand(rv[1]))
    if k == "ref": return "&%s %r" % (rv[1], Place(rv[2]))
    if k == "rawptr": return "&raw %s %r" % (rv[1], Place(rv[2]))
    if k == "cast": return "%r as %s (%s)" % (Operand(rv[2]), rv[3], rv[1])
    if k == "bin": return "%s(%r, %r)" % (rv[1], Operand(rv[2]), Operand(rv[3]))
    if k == "un": return "%s(%r)" % (rv[1], Operand(rv[2]))
    if k == "discr": return "discriminant(%r) [%s]" % (Place(rv[1]), rv[2])
    if k == "agg":
        kd = rv[1]
        ops = ", ".join(repr(Operand(o)) for o in rv[2])
        if kd["k"] == "adt": return "%s::%s{%s}(%s)" % (kd["adt"], kd["variant"], ",".join(kd["fields"]), ops)
        if kd["k"] == "closure": return "closure %s(%s)" % (kd["def"], ops)
        return "%s(%s)" % (kd["k"], ops)
    return json.dumps(rv)[:200]

def show(f, full=True):
    print("=" * 100)
    print(f.path, "  [%s:%d] vis=%s unsafe=%s trait=%s root=%s" % (f.file, f.line, f.vis, f.unsafe, f.trait, f.root))
    for i, l in enumerate(f.locals):
        if l.get("name"):
            print("   _%d: %s  // %s" % (i, l["ty"][:100], l["name"]))
    for up in f.j.get("upvars", []):
        print("   upvar %s = %r" % (up["name"], Place(up["place"])))
    for b in range(f.nblocks):
        if f.is_cleanup(b) and not full: continue
        print(" bb%d%s:" % (b, " (cleanup)" if f.is_cleanup(b) else ""))
        for s in f.stmts(b):
            if s.kind in ("assign", "setdiscr"):
                print("    %r = %s   // L%d%s" % (s.place, rv_str(s.rv) if s.kind == "assign" else "setdiscr " + s.rv[1], s.line, " " + ",".join(s.macs) if s.macs else ""))
            else:
                print("    %s" % json.dumps(s.raw)[:200])
        t = f.term(b)
        if t[0] == "call":
            c = f.call_at(b) if not f.is_cleanup(b) else None
            if c:
                print("    %r = %s(%s) -> bb%s unwind %s   // L%d %s res=%s self=%s" % (c.dest, c.path or repr(c.f), ", ".join(map(repr, c.args)), c.target, c.unwind, c.line, ",".join(c.macs), c.res, c.self_ty))
            else:
                print("    call (cleanup)")
        elif t[0] == "switch":
            print("    switch %r %s otherwise bb%d" % (Operand(t[1]), " ".join("%d->bb%d" % (a[0], a[1]) for a in t[2]), t[3]))
        elif t[0] == "assert":
            a = t[1]
            print("    assert(%r == %s) %s -> bb%d   // L%d" % (Operand(a["cond"]), a["expected"], a["kind"], a["target"], a["span"]["line"]))
        elif t[0] == "drop":
            print("    drop(%r) -> bb%d" % (Place(t[1]), t[2]))
        elif t[0] == "goto":
            print("    goto bb%d" % t[1])
        else:
            print("    %s" % t[0])

if __name__ == "__main__":
    crate, pat = sys.argv[1], sys.argv[2]
    F = Facts([crate], config=os.environ.get("CFG", "main"))
    fs = F.find(pat)
    if not fs:
        fs = [f for f in F.fns if pat in f.path]
    full = "--cleanup" in sys.argv
    for f in fs:
        if "--list" in sys.argv:
            print(f.path, f.file, f.line)
        else:
            show(f, full)
