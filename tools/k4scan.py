#!/usr/bin/env python3
"""k4scan.py crate1,crate2 entry1 entry2 ... : list may-panic sites reachable from entries."""
import sys, os
sys.path.insert(0, os.path.dirname(os.path.dirname(os.path.abspath(__file__))))
from rules.core.facts import Facts
from rules.core import k4
from collections import defaultdict
crates = sys.argv[1].split(",")
F = Facts(crates, config=os.environ.get("CFG", "main"))
entries = []
for p in sys.argv[2:]:
    if p.startswith("--"): continue
    fs = F.find(p)
    if not fs: print("NO ENTRY", p)
    entries += fs
cg = k4.CallGraph(F)
scope = os.environ.get("SCOPE"); scope = scope.split(",") if scope else None
order, seen, stats = cg.reach(entries, (), scope)
print("boundary:", sorted(cg.boundary))
print("reached", len(order), "functions; stats", dict(stats))
if "--fns" in sys.argv:
    for f in order: print("  ", f.path)
found = defaultdict(list); bug = defaultdict(list)
for f in order:
    for s in k4.sites_in(f):
        (bug if s.cls == "bug" else found)[(f.path, s.kind, s.cls)].append(s)
for (fp, kind, cls), ss in sorted(found.items()):
    f = ss[0].fn
    print("%-8s %-28s x%d %s  [%s:%s]  via %s" % (cls, kind, len(ss), fp, f.file, ",".join(str(s.line) for s in ss), k4.chain_of(seen, f, None)[:200]))
print("--- bug-class")
for (fp, kind, cls), ss in sorted(bug.items()):
    f = ss[0].fn
    print("bug %-18s x%d %s [%s:%s]" % (kind, len(ss), fp, f.file, ",".join(str(s.line) for s in ss)))
