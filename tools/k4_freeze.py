#!/usr/bin/env python3
"""k4_freeze.py [Cxx ...]: (re)record the dataflow fingerprints of the audited may-panic sites of the given
checks (default: all checks that use K4) in rules/tables/k4_fingerprints.json. A deliberate step after
(re)auditing: never run by a check."""
import importlib, json, os, sys
HERE = os.path.dirname(os.path.dirname(os.path.abspath(__file__)))
sys.path.insert(0, HERE)
os.environ["VERIF_K4_FREEZE"] = "1"
os.environ.setdefault("VERIF_OUT", "/tmp/verif-freeze-out")
from rules.core import k4, facts as factsmod  # noqa
from rules.core.report import Report  # noqa
props = sys.argv[1:] or sorted(f[:-3] for f in os.listdir(os.path.join(HERE, "rules", "props")) if f.startswith("C") and "run_k4" in open(os.path.join(HERE, "rules", "props", f)).read())
old = dict(k4.FINGERPRINTS)
for p in props:
    mod = importlib.import_module("rules.props.%s" % p)
    rep = Report(p, "quick")
    F = factsmod.Facts(mod.CRATES)
    mod.run(F, rep, "quick")
    print(p, "sites recorded so far:", len(k4.FREEZE))
for k in list(old):
    if k.split("|")[0] in props:
        del old[k]
old.update(k4.FREEZE)
with open(k4.FP_FILE, "w") as fh:
    json.dump(old, fh, indent=1, sort_keys=True)
print("wrote", k4.FP_FILE, len(old), "entries")
