#!/usr/bin/env python3
"""mkmut.py <name> <checks,comma> <what> <file> <<< "OLD\n=====\nNEW" : create mutants/<name>.diff replacing OLD by NEW
(exactly one occurrence) in /repo/<file>, and register it in mutants/index.json."""
import difflib, json, os, sys
HERE = os.path.dirname(os.path.dirname(os.path.abspath(__file__)))
name, checks, what, path = sys.argv[1:5]
old, new = sys.stdin.read().split("\n=====\n")
new = new.rstrip("\n") if not new.endswith("\n\n") else new
src = open(os.path.join("/repo", path)).read()
old = old.strip("\n"); new = new.strip("\n")
if src.count(old) != 1:
    print("OLD occurs %d times" % src.count(old)); sys.exit(1)
dst = src.replace(old, new)
d = "".join(difflib.unified_diff(src.splitlines(True), dst.splitlines(True), "a/" + path, "b/" + path))
open(os.path.join(HERE, "mutants", name + ".diff"), "w").write(d)
idx = json.load(open(os.path.join(HERE, "mutants", "index.json")))
idx = [m for m in idx if m["patch"] != name + ".diff"]
ent = {"patch": name + ".diff", "checks": checks.split(","), "what": what}
if name.startswith("benign-"):
    ent["expect"] = "silent"
idx.append(ent)
json.dump(idx, open(os.path.join(HERE, "mutants", "index.json"), "w"), indent=1)
print("ok", name)
