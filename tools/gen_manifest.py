#!/usr/bin/env python3
"""Generate MANIFEST.json from rules/props/*.py (claimed) and the not-applicable table."""
import importlib, json, os, sys, re
HERE = os.path.dirname(os.path.dirname(os.path.abspath(__file__)))
sys.path.insert(0, HERE)
props = [json.loads(l) for l in open(os.path.join(HERE, "properties.jsonl"))]
NA = {
 "C03": "Equality of the braided fact state with a reference model over all DAGs and priority assignments is value-level (LCA walk, skip-list contents, spill replay); the only shape facts (ordering key, finalize handling) are decided under C01/C05.",
 "C11": "Exactness of lookup/ancestry depends on the contents of skip lists built at runtime; the only sibling rule available would also fire on behaviour-preserving edits.",
 "C12": "Equivalence of chained, compacted fact indexes with a flat map over all insert/delete sequences is a data-structure invariant over values; no exact structural necessary condition beyond container types.",
 "C16": "Liveness/progress of repeated sync over all graph pairs and overlaps is bounded only by runtime quantities; no sound static argument in reach.",
 "C21": "Invariants of index arithmetic (partition, swaps) over all operation sequences need value reasoning about indices, not code shape.",
}
def thorough_cfg(pid):
    src = open(os.path.join(HERE, "rules", "props", pid + ".py")).read()
    m = re.search(r"THOROUGH_CONFIGS = \[([^\]]*)\]", src)
    extra = re.findall(r'"([a-z]+)"', m.group(1)) if m else []
    if 'config="cas"' in src:
        extra.append("cas")
    return (" (thorough tier also: %s)" % ", ".join("`%s`" % e for e in extra)) if extra else ""


PENDING = "check not built yet in this revision (static rule planned in DESIGN.md section 4)"
checks = []
na = []
for p in props:
    pid = p["id"]
    path = os.path.join(HERE, "rules", "props", pid + ".py")
    if os.path.exists(path):
        mod = importlib.import_module("rules.props." + pid)
        doc = (mod.__doc__ or "").strip()
        first = doc.split("\n")[0]
        decided = re.sub(r"\s+", " ", doc)
        checks.append({
            "property_id": pid,
            "quick_cmd": "./check %s" % pid,
            "thorough_cmd": "./check %s --tier thorough" % pid,
            "evidence_file": "/verif/evidence/%s.json" % pid,
            "replay_cmd_template": "./check %s --replay {path}" % pid,
            "engine": "rules",
            "level_claimed": {
                "category": "other",
                "text": "Static analysis: structural necessary conditions of the property, decided for every input/path from the resolved MIR of /repo's current source; the behavioural remainder is not decided by this family. " + decided,
                "design_ref": "DESIGN.md section 4 (%s, plan) and section 10 (as built)" % pid,
            },
            "level_note": "Trusted: rustc MIR construction, the extractor (driver/), audited tables in rules/props/%s.py (each entry has a stated reason), external crates not descended into, feature configuration `main`%s (see rules/core/extract.py); for K4 rules the frozen audit fingerprints in rules/tables/k4_fingerprints.json." % (pid, thorough_cfg(pid)),
            "technique": getattr(mod, "TECHNIQUE", "static analysis: repo-specific MIR rules (CFG dominance/edge polarity, who-may-call, may-panic reachability, def-use provenance, table agreement)"),
        })
    elif pid in NA:
        na.append({"property_id": pid, "reason": NA[pid]})
    else:
        na.append({"property_id": pid, "reason": PENDING})
man = {
    "version": 1,
    "setup_cmd": "./setup",
    "hooks": {
        "guard": "aranya_core_verif",
        "enable": "none needed: the static rules read the unmodified source; no hooks are compiled in",
        "baseline_off_cmd": "cd /repo && cargo nextest run --workspace --no-fail-fast --tool-config-file pb:/w/lib/nextest.toml --profile pb --test-threads 8 --offline || cargo test --workspace --no-fail-fast --offline",
        "source_commits": [],
        "add_only": True,
    },
    "engines": [
        {"name": "driver", "path": "driver/", "serves_properties": [c["property_id"] for c in checks],
         "kind_free_text": "rustc_private fact extractor (nightly), injected with RUSTC_WORKSPACE_WRAPPER under cargo check: resolved MIR, ADTs, impls per workspace crate"},
        {"name": "rules", "path": "rules/", "serves_properties": [c["property_id"] for c in checks],
         "kind_free_text": "python rule engine over the extracted facts: CFG, dominators, def-use, call graph, repo-specific rule instances with floors and audited tables"},
    ],
    "checks": checks,
    "not_applicable": na,
    "notes": "Technique family: static analysis only. Every check re-extracts facts from /repo's working tree (cached by a hash of the source inputs). Known findings: known_findings.json. Mutants used to test the checkers: mutants/ and seeded/.",
}
json.dump(man, open(os.path.join(HERE, "MANIFEST.json"), "w"), indent=1)
print("claimed", len(checks), "not_applicable", len(na))
