#!/usr/bin/env python3
"""build_design.py <selftest logs...>: re-assemble DESIGN.md = sections 1-9 (kept as they are) + docs/design_sec10.md
(hand-written) + the generated tables 10.5 / 10.6 (tools/status_table.py over the given self-test logs)."""
import os, subprocess, sys
HERE = os.path.dirname(os.path.dirname(os.path.abspath(__file__)))
d = open(os.path.join(HERE, "DESIGN.md")).read()
marker = "\n---\n\n## 10. As built\n"
if marker in d:
    d = d[:d.index(marker)]
sec = open(os.path.join(HERE, "docs", "design_sec10.md")).read()
tables = subprocess.check_output([sys.executable, os.path.join(HERE, "tools", "status_table.py")] + sys.argv[1:], text=True)
t1, t2 = tables.split("\n\n", 1)
out = (d.rstrip("\n") + "\n" + sec.rstrip("\n") + "\n\n### 10.5 Status per property (generated)\n\n"
       "Instances are those of the last run of each check (quick or thorough tier).\n\n" + t1 +
       "\n\n### 10.6 Which check catches which change (generated)\n\n`seeded/Cxx` = independently seeded change (first sentence of its `meta.json` "
       "summary; `Cxxb` = second round, `Cxxc` = third round); other rows are my own mutants; `benign-*` rows are behaviour-preserving edits that must stay silent.\n\n" + t2)
open(os.path.join(HERE, "DESIGN.md"), "w").write(out)
print("DESIGN.md rebuilt:", len(out.splitlines()), "lines")
