#!/usr/bin/env python3
"""selftest.py [filter] : run every mutant in mutants/index.json (or those whose patch name
contains `filter`) through tools/mutant.py and report which checks fired."""
import json, os, re, subprocess, sys
HERE = os.path.dirname(os.path.dirname(os.path.abspath(__file__)))
idx = json.load(open(os.path.join(HERE, "mutants", "index.json")))
flt = sys.argv[1] if len(sys.argv) > 1 else ""
# the independently seeded changes (seeded/<id>[-x]/patch.diff) are run against the check of their property
sd = os.path.join(HERE, "seeded")
for d in sorted(os.listdir(sd)) if os.path.isdir(sd) else []:
    pth = os.path.join(sd, d, "patch.diff")
    if os.path.exists(pth):
        checks = [re.match(r"C\d+", d).group(0)]
        cj = os.path.join(sd, d, "checks.json")   # optional: the seed lies outside its property's anchors and is decided by another property's check
        if os.path.exists(cj):
            checks = json.load(open(cj))["checks"]
        idx.append({"patch": os.path.join("..", "seeded", d, "patch.diff"), "checks": checks, "what": "seeded change for %s" % d})
bad = 0
for m in idx:
    if flt and flt not in m["patch"]:
        continue
    r = subprocess.run([os.path.join(HERE, "tools", "mutant.py"), os.path.join(HERE, "mutants", m["patch"])] + m["checks"],
                       stdout=subprocess.PIPE, stderr=subprocess.STDOUT, text=True)
    if m.get("expect") == "silent":
        # a behaviour-preserving (or property-irrelevant) edit: every named check must stay silent
        silent = "FIRED" not in r.stdout and "DOES NOT APPLY" not in r.stdout and "(exit 1)" not in r.stdout and "(exit 2)" not in r.stdout
        status = "OK-SILENT" if silent else "FALSE-ALARM"
        if not silent:
            bad += 1
    else:
        status = "OK" if r.returncode == 0 else "MISSED"
        if r.returncode != 0:
            bad += 1
    print("[%s] %s (%s)" % (status, m["patch"], m["what"]))
    for l in r.stdout.splitlines():
        if "FIRED" in l or "SILENT" in l or l.strip().startswith("key=") or "DOES NOT APPLY" in l:
            print("      " + l.strip())
sys.exit(1 if bad else 0)
