#!/usr/bin/env python3
"""mutant.py <patch.diff> <Cxx> [Cxx...] : apply a patch to a scratch worktree of /repo
(outside /repo and /verif), run the named checks against it, remove the worktree.
Prints per check: FIRED (exit 1 + VIOLATION) or SILENT. Exit 0 if every named check fired."""
import os, subprocess, sys, shutil, tempfile
HERE = os.path.dirname(os.path.dirname(os.path.abspath(__file__)))
patch = os.path.abspath(sys.argv[1])
props = [a for a in sys.argv[2:] if not a.startswith("-")]
verbose = "-v" in sys.argv
wt = tempfile.mkdtemp(prefix="verif-mut-", dir="/tmp")
os.rmdir(wt)
out = tempfile.mkdtemp(prefix="verif-mut-out-", dir="/tmp")
ok = True
try:
    subprocess.check_call(["git", "-C", "/repo", "worktree", "add", "-q", "--detach", wt, "HEAD"])
    r = subprocess.run(["git", "-C", wt, "apply", patch])
    if r.returncode != 0:
        print("PATCH DOES NOT APPLY"); sys.exit(3)
    env = dict(os.environ, VERIF_REPO=wt, VERIF_OUT=out)
    for p in props:
        r = subprocess.run([os.path.join(HERE, "check"), p], env=env, stdout=subprocess.PIPE, stderr=subprocess.STDOUT, text=True)
        fired = r.returncode == 1 and "VIOLATION property=%s" % p in r.stdout
        print("%s: %s" % (p, "FIRED" if fired else "SILENT (exit %d)" % r.returncode))
        if verbose or not fired:
            print("\n".join(r.stdout.splitlines()[-25:]))
        else:
            for l in r.stdout.splitlines():
                if l.startswith("  key="): print("   ", l.strip())
        ok = ok and fired
finally:
    subprocess.run(["git", "-C", "/repo", "worktree", "remove", "--force", wt])
    shutil.rmtree(out, ignore_errors=True)
sys.exit(0 if ok else 1)
