#!/usr/bin/env python3
"""status_table.py [selftest logs...] : print the markdown tables of DESIGN.md section 10 from
 - rules/props/Cxx.py docstrings (what is decided),
 - evidence/Cxx.json of the last run (instances on the current tree),
 - the given selftest logs (which check fired on which mutant / seeded change; later logs win)."""
import glob, json, os, re, sys
HERE = os.path.dirname(os.path.dirname(os.path.abspath(__file__)))


def doc_of(pid):
    p = os.path.join(HERE, "rules", "props", pid + ".py")
    if not os.path.exists(p):
        return None
    s = open(p).read()
    m = re.match(r'\s*"""(.*?)"""', s, re.S)
    return m.group(1) if m else ""


def parse_selftest(paths):
    res = {}
    for p in paths:
        cur = None
        for l in open(p):
            m = re.match(r"\[(OK|MISSED|OK-SILENT|FALSE-ALARM)\] (\S+) \((.*)\)\s*$", l)
            if m:
                cur = os.path.normpath(m.group(2))
                res[cur] = {"status": m.group(1), "what": m.group(3), "fired": [], "keys": []}
                continue
            if cur is None:
                continue
            m = re.match(r"\s+(C\d+): (FIRED|SILENT)", l)
            if m:
                res[cur]["fired"].append((m.group(1), m.group(2)))
            m = re.match(r"\s+key=(.*)$", l)
            if m:
                res[cur]["keys"].append(m.group(1).strip())
    return res


def main():
    logs = sys.argv[1:]
    st = parse_selftest(logs)
    props = [json.loads(l) for l in open(os.path.join(HERE, "properties.jsonl"))]
    man = json.load(open(os.path.join(HERE, "MANIFEST.json")))
    na = {x["property_id"]: x["reason"] for x in man.get("not_applicable", [])}
    print("| id | title | rules (kinds) | instances on today's tree | own mutants caught | benign edits silent | seeded changes caught |")
    print("|---|---|---|---|---|---|---|")
    for p in props:
        pid = p["id"]
        if pid in na:
            print("| %s | %s | not applicable | - | - | - | - |" % (pid, p["title"]))
            continue
        d = doc_of(pid) or ""
        kinds = sorted(set(re.findall(r"\bK\d+\b", d)), key=lambda k: int(k[1:]))
        nrules = len(set(re.findall(r"^\s*([RI]\d+)[a-z]?\b", d, re.M)))
        ev = os.path.join(HERE, "evidence", pid + ".json")
        inst = "-"
        if os.path.exists(ev):
            e = json.load(open(ev))
            inst = "%d (%d held)" % (e["coverage"]["obligations"], e["coverage"]["discharged"])
        allown = [(k, v) for k, v in st.items() if not k.startswith("../seeded") and any(c == pid for c, _ in v["fired"])]
        own = [(k, v) for k, v in allown if not os.path.basename(k).startswith("benign-")]
        ben = [(k, v) for k, v in allown if os.path.basename(k).startswith("benign-")]
        ownf = sum(1 for k, v in own if any(c == pid and s == "FIRED" for c, s in v["fired"]))
        benf = sum(1 for k, v in ben if all(not (c == pid and s == "FIRED") for c, s in v["fired"]))
        seeds = [(k, v) for k, v in st.items() if k.startswith("../seeded/%s" % pid)]
        sf = []
        for k, v in seeds:
            name = k.split("/")[2]
            by = [c for c, s in v["fired"] if s == "FIRED"]
            sf.append("%s: %s" % (name, "yes" if pid in by else ("by %s" % "+".join(by) if by else "**no**")))
        print("| %s | %s | %d rules: %s | %s | %s | %s | %s |" % (pid, p["title"], nrules, " ".join(kinds), inst,
                                                         ("%d/%d" % (ownf, len(own))) if own else "-", ("%d/%d" % (benf, len(ben))) if ben else "-",
                                                         "; ".join(sf) or "not seeded"))
    print()
    print("| change | what it does | check | first rule instance that fired |")
    print("|---|---|---|---|")
    for k, v in sorted(st.items()):
        name = k.replace("../seeded/", "seeded/").replace("/patch.diff", "").replace(".diff", "")
        what = v["what"]
        if k.startswith("../seeded"):
            mp = os.path.join(HERE, "seeded", k.split("/")[2], "meta.json")
            if os.path.exists(mp):
                what = json.load(open(mp)).get("summary", what)
                what = what.split(". ")[0][:230]
        for c, s in v["fired"]:
            keys = [x for x in v["keys"] if x.startswith(c + "|")]
            print("| %s | %s | %s %s | %s |" % (name, what.replace("|", "/"), c, "fired" if s == "FIRED" else "**silent**",
                                            ("`%s`" % keys[0].replace("|", " / ")) if keys else "-"))


if __name__ == "__main__":
    main()
