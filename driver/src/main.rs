//! verif-driver: rustc_private fact extractor for the aranya-core static rules.
//!
//! Runs as RUSTC_WORKSPACE_WRAPPER. For every workspace crate compiled it writes
//! one JSON fact file (one write per process) to $VERIF_FACTS_DIR containing the
//! resolved MIR of every local function body, the local ADTs and the local impls.
#![feature(rustc_private)]

extern crate rustc_abi;
extern crate rustc_driver;
extern crate rustc_hir;
extern crate rustc_hir_pretty;
extern crate rustc_interface;
extern crate rustc_middle;
extern crate rustc_session;
extern crate rustc_span;

use std::fmt::Write as _;

use rustc_driver::{Callbacks, Compilation};
use rustc_hir::def::DefKind;
use rustc_hir::def_id::{DefId, LocalDefId};
use rustc_interface::interface::Compiler;
use rustc_middle::mir::{
    self, AggregateKind, BasicBlock, Body, Const, Operand, Place, ProjectionElem, Rvalue,
    StatementKind, TerminatorKind, UnwindAction,
};
use rustc_middle::ty::print::{with_crate_prefix, with_no_trimmed_paths, with_no_visible_paths};
use rustc_middle::ty::{self, Instance, Ty, TyCtxt, TypeVisitableExt, TypingEnv};
use rustc_span::{ExpnKind, Span};

// ---------------------------------------------------------------- JSON writer

fn esc(s: &str, out: &mut String) {
    out.push('"');
    for c in s.chars() {
        match c {
            '"' => out.push_str("\\\""),
            '\\' => out.push_str("\\\\"),
            '\n' => out.push_str("\\n"),
            '\r' => out.push_str("\\r"),
            '\t' => out.push_str("\\t"),
            c if (c as u32) < 0x20 => {
                let _ = write!(out, "\\u{:04x}", c as u32);
            }
            c => out.push(c),
        }
    }
    out.push('"');
}

fn js(s: &str) -> String {
    let mut o = String::with_capacity(s.len() + 2);
    esc(s, &mut o);
    o
}

fn jopt(s: Option<String>) -> String {
    match s {
        Some(s) => js(&s),
        None => "null".to_string(),
    }
}

fn jarr(v: Vec<String>) -> String {
    let mut o = String::from("[");
    for (i, x) in v.iter().enumerate() {
        if i > 0 {
            o.push(',');
        }
        o.push_str(x);
    }
    o.push(']');
    o
}

fn jobj(v: Vec<(&str, String)>) -> String {
    let mut o = String::from("{");
    for (i, (k, x)) in v.iter().enumerate() {
        if i > 0 {
            o.push(',');
        }
        esc(k, &mut o);
        o.push(':');
        o.push_str(x);
    }
    o.push('}');
    o
}

fn jbool(b: bool) -> String {
    if b { "true".into() } else { "false".into() }
}

// ---------------------------------------------------------------- helpers

fn path_of(tcx: TyCtxt<'_>, did: DefId) -> String {
    with_crate_prefix!(with_no_visible_paths!(with_no_trimmed_paths!(tcx.def_path_str(did))))
}

fn ty_str(ty: Ty<'_>) -> String {
    with_crate_prefix!(with_no_visible_paths!(with_no_trimmed_paths!(format!("{}", ty))))
}

struct Ctx<'tcx> {
    tcx: TyCtxt<'tcx>,
}

impl<'tcx> Ctx<'tcx> {
    fn span_info(&self, span: Span) -> (String, usize, bool, Vec<String>) {
        let sm = self.tcx.sess.source_map();
        let exp = span.from_expansion();
        let mut macs = Vec::new();
        if exp {
            for ed in span.macro_backtrace() {
                match ed.kind {
                    ExpnKind::Macro(_, name) => macs.push(name.to_string()),
                    ExpnKind::Desugaring(d) => macs.push(format!("desugar:{:?}", d)),
                    ExpnKind::AstPass(p) => macs.push(format!("astpass:{:?}", p)),
                    ExpnKind::Root => {}
                }
            }
        }
        let cs = span.source_callsite();
        let loc = sm.lookup_char_pos(cs.lo());
        let file = match &loc.file.name {
            rustc_span::FileName::Real(r) => match r.local_path() {
                Some(p) => p.to_string_lossy().into_owned(),
                None => format!("{:?}", r),
            },
            other => format!("{:?}", other),
        };
        (file, loc.line, exp, macs)
    }

    fn span_json(&self, span: Span) -> String {
        let (file, line, exp, macs) = self.span_info(span);
        let _ = file;
        jobj(vec![
            ("line", line.to_string()),
            ("exp", jbool(exp)),
            ("macs", jarr(macs.iter().map(|m| js(m)).collect())),
        ])
    }

    fn place(&self, body: &Body<'tcx>, p: &Place<'tcx>) -> String {
        let mut projs = Vec::new();
        let mut pty = mir::PlaceTy::from_ty(body.local_decls[p.local].ty);
        for elem in p.projection.iter() {
            let j = match elem {
                ProjectionElem::Deref => jarr(vec![js("d")]),
                ProjectionElem::Field(f, _) => {
                    let name = match pty.ty.kind() {
                        ty::Adt(adt, _) => {
                            let v = match pty.variant_index {
                                Some(v) => adt.variant(v),
                                None => {
                                    if adt.is_enum() {
                                        // should not happen
                                        adt.variant(rustc_abi::VariantIdx::from_u32(0))
                                    } else {
                                        adt.non_enum_variant()
                                    }
                                }
                            };
                            v.fields.get(f).map(|fd| fd.name.to_string())
                        }
                        _ => None,
                    };
                    jarr(vec![
                        js("f"),
                        f.as_u32().to_string(),
                        jopt(name),
                    ])
                }
                ProjectionElem::Index(l) => jarr(vec![js("i"), l.as_u32().to_string()]),
                ProjectionElem::ConstantIndex { offset, from_end, .. } => {
                    jarr(vec![js("ci"), offset.to_string(), jbool(from_end)])
                }
                ProjectionElem::Subslice { from, to, from_end } => {
                    jarr(vec![js("sub"), from.to_string(), to.to_string(), jbool(from_end)])
                }
                ProjectionElem::Downcast(name, idx) => {
                    let n = match name {
                        Some(s) => s.to_string(),
                        None => match pty.ty.kind() {
                            ty::Adt(adt, _) => adt.variant(idx).name.to_string(),
                            _ => format!("#{}", idx.as_u32()),
                        },
                    };
                    jarr(vec![js("v"), js(&n)])
                }
                ProjectionElem::OpaqueCast(_) => jarr(vec![js("oc")]),
                ProjectionElem::UnwrapUnsafeBinder(_) => jarr(vec![js("ub")]),
            };
            projs.push(j);
            pty = pty.projection_ty(self.tcx, elem);
        }
        jobj(vec![("l", p.local.as_u32().to_string()), ("p", jarr(projs))])
    }

    fn callee_json(
        &self,
        owner: DefId,
        did: DefId,
        args: ty::GenericArgsRef<'tcx>,
    ) -> Vec<(&'static str, String)> {
        let tcx = self.tcx;
        let mut v: Vec<(&'static str, String)> = Vec::new();
        v.push(("path", js(&path_of(tcx, did))));
        v.push(("name", js(&tcx.opt_item_name(did).map(|s| s.to_string()).unwrap_or_default())));
        let gargs = with_crate_prefix!(with_no_visible_paths!(with_no_trimmed_paths!(format!("{:?}", args))));
        v.push(("gargs", js(&gargs)));
        let mut trait_path = None;
        let mut self_ty = None;
        let mut resolved = None;
        if let Some(assoc) = tcx.opt_associated_item(did) {
            match assoc.container {
                ty::AssocContainer::Trait => {
                    let tr = tcx.parent(did);
                    trait_path = Some(path_of(tcx, tr));
                    if !args.is_empty() {
                        if let Some(t) = args.get(0).and_then(|a| a.as_type()) {
                            self_ty = Some(ty_str(t));
                        }
                    }
                    // Try to resolve to a concrete impl.
                    let env = TypingEnv::post_analysis(tcx, owner);
                    if !args.has_escaping_bound_vars() {
                        if let Ok(Some(inst)) = Instance::try_resolve(tcx, env, did, args) {
                            let rd = inst.def_id();
                            if rd != did {
                                resolved = Some(path_of(tcx, rd));
                            }
                        }
                    }
                }
                _ => {
                    let imp = tcx.parent(did);
                    if matches!(tcx.def_kind(imp), DefKind::Impl { .. }) {
                        let st = tcx.type_of(imp).instantiate_identity().skip_norm_wip();
                        self_ty = Some(ty_str(st));
                        if let Some(tr) = tcx.impl_opt_trait_ref(imp) {
                            trait_path = Some(path_of(tcx, tr.skip_binder().def_id));
                        }
                    }
                }
            }
        }
        v.push(("trait", jopt(trait_path)));
        v.push(("self", jopt(self_ty)));
        v.push(("res", jopt(resolved)));
        if matches!(tcx.def_kind(did), DefKind::Fn | DefKind::AssocFn) {
            let sig = tcx.fn_sig(did).instantiate_identity().skip_norm_wip();
            v.push(("unsafe", jbool(!sig.safety().is_safe())));
        }
        v
    }

    fn operand(&self, owner: DefId, body: &Body<'tcx>, op: &Operand<'tcx>) -> String {
        match op {
            Operand::Copy(p) => jarr(vec![js("c"), self.place(body, p)]),
            Operand::Move(p) => jarr(vec![js("m"), self.place(body, p)]),
            Operand::Constant(c) => jarr(vec![js("k"), self.constant(owner, &c.const_)]),
            #[allow(unreachable_patterns)]
            other => jarr(vec![js("o"), js(&format!("{:?}", other))]),
        }
    }

    fn constant(&self, owner: DefId, c: &Const<'tcx>) -> String {
        let tcx = self.tcx;
        let ty = c.ty();
        let mut v: Vec<(&str, String)> = Vec::new();
        v.push(("ty", js(&ty_str(ty))));
        let dbg = with_crate_prefix!(with_no_visible_paths!(with_no_trimmed_paths!(format!("{}", c))));
        v.push(("dbg", js(&dbg)));
        // fn item?
        match ty.kind() {
            ty::FnDef(did, args) => {
                v.push(("fn", jobj(self.callee_json(owner, *did, args))));
            }
            ty::Closure(did, _) => {
                v.push(("closure", js(&path_of(tcx, *did))));
            }
            _ => {}
        }
        if let Const::Unevaluated(u, _) = c {
            v.push(("def", js(&path_of(tcx, u.def))));
            if let Some(p) = u.promoted {
                v.push(("promoted", p.as_u32().to_string()));
            }
        }
        // scalar value
        let is_scalar_ty = ty.is_integral() || ty.is_bool() || ty.is_char() || ty.is_enum();
        if is_scalar_ty {
            let env = TypingEnv::post_analysis(tcx, owner);
            let val = std::panic::catch_unwind(std::panic::AssertUnwindSafe(|| {
                c.try_eval_scalar_int(tcx, env)
            }));
            if let Ok(Some(si)) = val {
                let size = si.size();
                let bits = si.to_bits(size);
                let sval: i128 = if ty.is_signed() {
                    size.sign_extend(bits) as i128
                } else {
                    bits as i128
                };
                v.push(("val", sval.to_string()));
            }
        }
        jobj(v)
    }

    fn rvalue(&self, owner: DefId, body: &Body<'tcx>, rv: &Rvalue<'tcx>) -> String {
        let tcx = self.tcx;
        match rv {
            Rvalue::Use(op, ..) => jarr(vec![js("use"), self.operand(owner, body, op)]),
            Rvalue::Repeat(op, n) => jarr(vec![
                js("repeat"),
                self.operand(owner, body, op),
                js(&format!("{:?}", n)),
            ]),
            Rvalue::Ref(_, bk, p) => {
                let m = match bk {
                    mir::BorrowKind::Shared => "shared",
                    mir::BorrowKind::Fake(_) => "fake",
                    mir::BorrowKind::Mut { .. } => "mut",
                };
                jarr(vec![js("ref"), js(m), self.place(body, p)])
            }
            Rvalue::RawPtr(k, p) => {
                jarr(vec![js("rawptr"), js(&format!("{:?}", k)), self.place(body, p)])
            }
            Rvalue::Cast(kind, op, ty) => jarr(vec![
                js("cast"),
                js(&format!("{:?}", kind)),
                self.operand(owner, body, op),
                js(&ty_str(*ty)),
            ]),
            Rvalue::BinaryOp(op, ab) => jarr(vec![
                js("bin"),
                js(&format!("{:?}", op)),
                self.operand(owner, body, &ab.0),
                self.operand(owner, body, &ab.1),
            ]),
            Rvalue::UnaryOp(op, a) => jarr(vec![
                js("un"),
                js(&format!("{:?}", op)),
                self.operand(owner, body, a),
            ]),
            Rvalue::Discriminant(p) => {
                let pty = p.ty(&body.local_decls, tcx).ty;
                let adt = match pty.kind() {
                    ty::Adt(a, _) => Some(path_of(tcx, a.did())),
                    _ => None,
                };
                jarr(vec![js("discr"), self.place(body, p), jopt(adt)])
            }
            Rvalue::Aggregate(kind, ops) => {
                let k = match &**kind {
                    AggregateKind::Array(_) => jobj(vec![("k", js("array"))]),
                    AggregateKind::Tuple => jobj(vec![("k", js("tuple"))]),
                    AggregateKind::Adt(did, vidx, _, _, active) => {
                        let adt = tcx.adt_def(*did);
                        let var = adt.variant(*vidx);
                        let fields: Vec<String> = match active {
                            Some(f) => vec![js(&var.fields[*f].name.to_string())],
                            None => var.fields.iter().map(|f| js(&f.name.to_string())).collect(),
                        };
                        jobj(vec![
                            ("k", js("adt")),
                            ("adt", js(&path_of(tcx, *did))),
                            ("variant", js(&var.name.to_string())),
                            ("fields", jarr(fields)),
                        ])
                    }
                    AggregateKind::Closure(did, _) => {
                        jobj(vec![("k", js("closure")), ("def", js(&path_of(tcx, *did)))])
                    }
                    AggregateKind::Coroutine(did, _) => {
                        jobj(vec![("k", js("coroutine")), ("def", js(&path_of(tcx, *did)))])
                    }
                    AggregateKind::CoroutineClosure(did, _) => {
                        jobj(vec![("k", js("coroclosure")), ("def", js(&path_of(tcx, *did)))])
                    }
                    AggregateKind::RawPtr(..) => jobj(vec![("k", js("rawptr"))]),
                };
                let o: Vec<String> = ops.iter().map(|o| self.operand(owner, body, o)).collect();
                jarr(vec![js("agg"), k, jarr(o)])
            }
            Rvalue::CopyForDeref(p) => {
                jarr(vec![js("use"), jarr(vec![js("c"), self.place(body, p)])])
            }
            Rvalue::ThreadLocalRef(d) => jarr(vec![js("tls"), js(&path_of(tcx, *d))]),
            other => jarr(vec![js("other"), js(&format!("{:?}", other))]),
        }
    }

    fn unwind(&self, u: &UnwindAction) -> String {
        match u {
            UnwindAction::Cleanup(bb) => bb.as_u32().to_string(),
            _ => "null".into(),
        }
    }

    fn bbopt(&self, b: &Option<BasicBlock>) -> String {
        match b {
            Some(b) => b.as_u32().to_string(),
            None => "null".into(),
        }
    }

    fn body_json(&self, ldid: LocalDefId) -> Option<String> {
        let tcx = self.tcx;
        let did = ldid.to_def_id();
        let kind = tcx.def_kind(did);
        let is_fn = matches!(kind, DefKind::Fn | DefKind::AssocFn | DefKind::Closure);
        if !is_fn {
            return None;
        }
        if tcx.is_constructor(did) {
            return None;
        }
        // coroutine bodies: optimized_mir works but skip by-move bodies
        let body: &Body<'tcx> = tcx.optimized_mir(did);
        let mut v: Vec<(&str, String)> = Vec::new();
        v.push(("path", js(&path_of(tcx, did))));
        let name = match kind {
            DefKind::Closure => "{closure}".to_string(),
            _ => tcx.opt_item_name(did).map(|s| s.to_string()).unwrap_or_default(),
        };
        v.push(("name", js(&name)));
        v.push(("kind", js(&format!("{:?}", kind))));
        let (file, line, exp, macs) = self.span_info(tcx.def_span(did));
        v.push(("file", js(&file)));
        v.push(("line", line.to_string()));
        v.push(("exp", jbool(exp)));
        v.push(("macs", jarr(macs.iter().map(|m| js(m)).collect())));
        // visibility & safety
        if matches!(kind, DefKind::Fn | DefKind::AssocFn) {
            let vis = tcx.visibility(did);
            let vs = match vis {
                ty::Visibility::Public => "pub".to_string(),
                ty::Visibility::Restricted(m) => {
                    if m == tcx.parent_module_from_def_id(ldid).to_def_id() {
                        "priv".to_string()
                    } else {
                        format!("in:{}", path_of(tcx, m))
                    }
                }
            };
            v.push(("vis", js(&vs)));
            let sig = tcx.fn_sig(did).instantiate_identity().skip_norm_wip();
            v.push(("unsafe", jbool(!sig.safety().is_safe())));
        }
        // parent (for closures: the enclosing fn)
        let mut parent = tcx.parent(did);
        if matches!(kind, DefKind::Closure) {
            let root = tcx.typeck_root_def_id(did);
            v.push(("root", js(&path_of(tcx, root))));
            parent = tcx.parent(root);
        }
        if matches!(tcx.def_kind(parent), DefKind::Impl { .. }) {
            let st = tcx.type_of(parent).instantiate_identity().skip_norm_wip();
            v.push(("self_ty", js(&ty_str(st))));
            if let ty::Adt(a, _) = st.kind() {
                v.push(("self_adt", js(&path_of(tcx, a.did()))));
            }
            if let Some(tr) = tcx.impl_opt_trait_ref(parent) {
                v.push(("trait", js(&path_of(tcx, tr.skip_binder().def_id))));
            }
            let derived = tcx.is_automatically_derived(parent);
            v.push(("derived", jbool(derived)));
        } else if matches!(tcx.def_kind(parent), DefKind::Trait) {
            v.push(("in_trait", js(&path_of(tcx, parent))));
        }
        v.push(("nargs", body.arg_count.to_string()));
        // locals
        let mut names: Vec<Option<String>> = vec![None; body.local_decls.len()];
        let mut dbg_extra: Vec<String> = Vec::new();
        for vdi in &body.var_debug_info {
            match &vdi.value {
                mir::VarDebugInfoContents::Place(p) => {
                    if p.projection.is_empty() {
                        let i = p.local.as_usize();
                        if names[i].is_none() {
                            names[i] = Some(vdi.name.to_string());
                        }
                    } else {
                        dbg_extra.push(jobj(vec![
                            ("name", js(&vdi.name.to_string())),
                            ("place", self.place(body, p)),
                        ]));
                    }
                }
                mir::VarDebugInfoContents::Const(_) => {}
            }
        }
        let locals: Vec<String> = body
            .local_decls
            .iter_enumerated()
            .map(|(l, d)| {
                jobj(vec![
                    ("ty", js(&ty_str(d.ty))),
                    ("name", jopt(names[l.as_usize()].clone())),
                ])
            })
            .collect();
        v.push(("locals", jarr(locals)));
        v.push(("upvars", jarr(dbg_extra)));
        // blocks
        let mut blocks = Vec::new();
        for (_bb, data) in body.basic_blocks.iter_enumerated() {
            let mut stmts = Vec::new();
            for st in &data.statements {
                match &st.kind {
                    StatementKind::Assign(b) => {
                        let (p, rv) = &**b;
                        stmts.push(jarr(vec![
                            js("assign"),
                            self.place(body, p),
                            self.rvalue(did, body, rv),
                            self.span_json(st.source_info.span),
                        ]));
                    }
                    StatementKind::SetDiscriminant { place, variant_index } => {
                        let pty = place.ty(&body.local_decls, tcx).ty;
                        let vn = match pty.kind() {
                            ty::Adt(a, _) => a.variant(*variant_index).name.to_string(),
                            _ => format!("#{}", variant_index.as_u32()),
                        };
                        stmts.push(jarr(vec![
                            js("setdiscr"),
                            self.place(body, place),
                            js(&vn),
                            self.span_json(st.source_info.span),
                        ]));
                    }
                    StatementKind::Intrinsic(i) => {
                        stmts.push(jarr(vec![
                            js("intrinsic"),
                            js(&format!("{:?}", i)),
                            self.span_json(st.source_info.span),
                        ]));
                    }
                    _ => {}
                }
            }
            let term = data.terminator();
            let sp = self.span_json(term.source_info.span);
            let t = match &term.kind {
                TerminatorKind::Goto { target } => {
                    jarr(vec![js("goto"), target.as_u32().to_string()])
                }
                TerminatorKind::SwitchInt { discr, targets } => {
                    let mut arms = Vec::new();
                    for (val, bb) in targets.iter() {
                        arms.push(jarr(vec![val.to_string(), bb.as_u32().to_string()]));
                    }
                    jarr(vec![
                        js("switch"),
                        self.operand(did, body, discr),
                        jarr(arms),
                        targets.otherwise().as_u32().to_string(),
                        sp,
                    ])
                }
                TerminatorKind::Return => jarr(vec![js("return"), sp]),
                TerminatorKind::Unreachable => jarr(vec![js("unreachable")]),
                TerminatorKind::UnwindResume => jarr(vec![js("resume")]),
                TerminatorKind::UnwindTerminate(_) => jarr(vec![js("terminate")]),
                TerminatorKind::Drop { place, target, unwind, .. } => jarr(vec![
                    js("drop"),
                    self.place(body, place),
                    target.as_u32().to_string(),
                    self.unwind(unwind),
                ]),
                TerminatorKind::Call { func, args, destination, target, unwind, fn_span, .. } => {
                    let mut c: Vec<(&str, String)> = Vec::new();
                    c.push(("f", self.operand(did, body, func)));
                    let a: Vec<String> =
                        args.iter().map(|a| self.operand(did, body, &a.node)).collect();
                    c.push(("args", jarr(a)));
                    c.push(("dest", self.place(body, destination)));
                    c.push(("target", self.bbopt(target)));
                    c.push(("unwind", self.unwind(unwind)));
                    c.push(("span", self.span_json(*fn_span)));
                    jarr(vec![js("call"), jobj(c)])
                }
                TerminatorKind::TailCall { func, args, fn_span } => {
                    let mut c: Vec<(&str, String)> = Vec::new();
                    c.push(("f", self.operand(did, body, func)));
                    let a: Vec<String> =
                        args.iter().map(|a| self.operand(did, body, &a.node)).collect();
                    c.push(("args", jarr(a)));
                    c.push(("span", self.span_json(*fn_span)));
                    jarr(vec![js("tailcall"), jobj(c)])
                }
                TerminatorKind::Assert { cond, expected, msg, target, unwind } => {
                    let kind = match &**msg {
                        mir::AssertKind::BoundsCheck { .. } => "BoundsCheck".to_string(),
                        mir::AssertKind::Overflow(op, ..) => format!("Overflow({:?})", op),
                        mir::AssertKind::OverflowNeg(_) => "OverflowNeg".to_string(),
                        mir::AssertKind::DivisionByZero(_) => "DivisionByZero".to_string(),
                        mir::AssertKind::RemainderByZero(_) => "RemainderByZero".to_string(),
                        mir::AssertKind::MisalignedPointerDereference { .. } => {
                            "MisalignedPointerDereference".to_string()
                        }
                        mir::AssertKind::NullPointerDereference => {
                            "NullPointerDereference".to_string()
                        }
                        mir::AssertKind::InvalidEnumConstruction(_) => {
                            "InvalidEnumConstruction".to_string()
                        }
                        other => format!("{:?}", other),
                    };
                    jarr(vec![
                        js("assert"),
                        jobj(vec![
                            ("cond", self.operand(did, body, cond)),
                            ("expected", jbool(*expected)),
                            ("kind", js(&kind)),
                            ("target", target.as_u32().to_string()),
                            ("unwind", self.unwind(unwind)),
                            ("span", sp),
                        ]),
                    ])
                }
                TerminatorKind::FalseEdge { real_target, .. } => {
                    jarr(vec![js("goto"), real_target.as_u32().to_string()])
                }
                TerminatorKind::FalseUnwind { real_target, .. } => {
                    jarr(vec![js("goto"), real_target.as_u32().to_string()])
                }
                TerminatorKind::Yield { resume, drop, .. } => jarr(vec![
                    js("yield"),
                    resume.as_u32().to_string(),
                    self.bbopt(drop),
                ]),
                TerminatorKind::CoroutineDrop => jarr(vec![js("coroutine_drop")]),
                TerminatorKind::InlineAsm { targets, .. } => {
                    let t: Vec<String> = targets.iter().map(|b| b.as_u32().to_string()).collect();
                    jarr(vec![js("asm"), jarr(t)])
                }
            };
            blocks.push(jobj(vec![
                ("s", jarr(stmts)),
                ("t", t),
                ("cleanup", jbool(data.is_cleanup)),
            ]));
        }
        v.push(("blocks", jarr(blocks)));
        // promoted constants: which named constants / fn items each one mentions
        let mut proms = Vec::new();
        if matches!(kind, DefKind::Fn | DefKind::AssocFn | DefKind::Closure) {
            let pm = tcx.promoted_mir(did);
            for pb in pm.iter() {
                let mut items = Vec::new();
                for bb in pb.basic_blocks.iter() {
                    for st in &bb.statements {
                        if let StatementKind::Assign(b) = &st.kind {
                            let (_, rv) = &**b;
                            let mut ops: Vec<&Operand<'tcx>> = Vec::new();
                            match rv {
                                Rvalue::Use(o, ..) | Rvalue::Cast(_, o, _) | Rvalue::UnaryOp(_, o) | Rvalue::Repeat(o, _) => ops.push(o),
                                Rvalue::BinaryOp(_, ab) => { ops.push(&ab.0); ops.push(&ab.1); }
                                Rvalue::Aggregate(_, os) => { for o in os.iter() { ops.push(o); } }
                                _ => {}
                            }
                            for o in ops {
                                if let Operand::Constant(c) = o {
                                    items.push(self.constant(did, &c.const_));
                                }
                            }
                        }
                    }
                    if let Some(t) = &bb.terminator {
                        if let TerminatorKind::Call { func, args, .. } = &t.kind {
                            if let Operand::Constant(c) = func { items.push(self.constant(did, &c.const_)); }
                            for a in args.iter() { if let Operand::Constant(c) = &a.node { items.push(self.constant(did, &c.const_)); } }
                        }
                    }
                }
                proms.push(jarr(items));
            }
        }
        v.push(("promoted", jarr(proms)));
        Some(jobj(v))
    }

    fn adts_json(&self) -> Vec<String> {
        let tcx = self.tcx;
        let mut out = Vec::new();
        for ldid in tcx.hir_crate_items(()).definitions() {
            let did = ldid.to_def_id();
            let kind = tcx.def_kind(did);
            if !matches!(kind, DefKind::Struct | DefKind::Enum | DefKind::Union) {
                continue;
            }
            let adt = tcx.adt_def(did);
            let mut v: Vec<(&str, String)> = Vec::new();
            v.push(("path", js(&path_of(tcx, did))));
            v.push(("kind", js(&format!("{:?}", kind))));
            let (file, line, exp, _) = self.span_info(tcx.def_span(did));
            v.push(("file", js(&file)));
            v.push(("line", line.to_string()));
            v.push(("exp", jbool(exp)));
            v.push(("attrs", jarr(self.attrs(ldid))));
            v.push(("repr", js(&format!("{:?}", adt.repr()))));
            let mut variants = Vec::new();
            for (vidx, var) in adt.variants().iter_enumerated() {
                let discr = if adt.is_enum() {
                    let d = adt.discriminant_for_variant(tcx, vidx);
                    let dty = d.ty;
                    let size = rustc_abi::Size::from_bits(match dty.kind() {
                        ty::Int(i) => i.bit_width().unwrap_or(64),
                        ty::Uint(u) => u.bit_width().unwrap_or(64),
                        _ => 128,
                    });
                    let val: i128 = if dty.is_signed() {
                        size.sign_extend(d.val) as i128
                    } else {
                        d.val as i128
                    };
                    val.to_string()
                } else {
                    "null".to_string()
                };
                let mut fields = Vec::new();
                for f in var.fields.iter() {
                    let fty = tcx.type_of(f.did).instantiate_identity().skip_norm_wip();
                    let vis = match f.vis {
                        ty::Visibility::Public => "pub".to_string(),
                        ty::Visibility::Restricted(m) => {
                            if m.is_crate_root() {
                                "crate".to_string()
                            } else {
                                format!("in:{}", path_of(tcx, m))
                            }
                        }
                    };
                    let fattrs = match f.did.as_local() {
                        Some(l) => self.attrs(l),
                        None => vec![],
                    };
                    fields.push(jobj(vec![
                        ("name", js(&f.name.to_string())),
                        ("ty", js(&ty_str(fty))),
                        ("vis", js(&vis)),
                        ("attrs", jarr(fattrs)),
                    ]));
                }
                variants.push(jobj(vec![
                    ("name", js(&var.name.to_string())),
                    ("discr", discr),
                    ("fields", jarr(fields)),
                ]));
            }
            v.push(("variants", jarr(variants)));
            out.push(jobj(v));
        }
        out
    }

    fn attrs(&self, ldid: LocalDefId) -> Vec<String> {
        let tcx = self.tcx;
        let hir_id = tcx.local_def_id_to_hir_id(ldid);
        let mut out = Vec::new();
        for a in tcx.hir_attrs(hir_id) {
            let s = std::panic::catch_unwind(std::panic::AssertUnwindSafe(|| {
                rustc_hir_pretty::attribute_to_string(&tcx, a)
            }));
            if let Ok(s) = s {
                let s = s.trim().to_string();
                if s.starts_with("///") || s.starts_with("#[doc") || s.is_empty() {
                    continue;
                }
                out.push(js(&s));
            }
        }
        out
    }

    fn impls_json(&self) -> Vec<String> {
        let tcx = self.tcx;
        let mut out = Vec::new();
        for ldid in tcx.hir_crate_items(()).definitions() {
            let did = ldid.to_def_id();
            if !matches!(tcx.def_kind(did), DefKind::Impl { .. }) {
                continue;
            }
            let st = tcx.type_of(did).instantiate_identity().skip_norm_wip();
            let mut v: Vec<(&str, String)> = Vec::new();
            v.push(("self_ty", js(&ty_str(st))));
            if let ty::Adt(a, _) = st.kind() {
                v.push(("self_adt", js(&path_of(tcx, a.did()))));
            }
            if let Some(tr) = tcx.impl_opt_trait_ref(did) {
                let tr = tr.skip_binder();
                v.push(("trait", js(&path_of(tcx, tr.def_id))));
                let trs = with_crate_prefix!(with_no_visible_paths!(with_no_trimmed_paths!(format!("{:?}", tr))));
                v.push(("trait_ref", js(&trs)));
                let header = tcx.impl_trait_header(did);
                v.push(("polarity", js(&format!("{:?}", header.polarity))));
                v.push(("unsafe", jbool(!header.safety.is_safe())));
            }
            v.push(("derived", jbool(tcx.is_automatically_derived(did))));
            let (file, line, exp, _) = self.span_info(tcx.def_span(did));
            v.push(("file", js(&file)));
            v.push(("line", line.to_string()));
            v.push(("exp", jbool(exp)));
            let items: Vec<String> = tcx
                .associated_item_def_ids(did)
                .iter()
                .map(|d| js(&tcx.opt_item_name(*d).map(|s| s.to_string()).unwrap_or_default()))
                .collect();
            v.push(("items", jarr(items)));
            out.push(jobj(v));
        }
        out
    }

    fn consts_json(&self) -> Vec<String> {
        // local `const`/`static` items with integer-ish values
        let tcx = self.tcx;
        let mut out = Vec::new();
        for ldid in tcx.hir_crate_items(()).definitions() {
            let did = ldid.to_def_id();
            let kind = tcx.def_kind(did);
            if !matches!(kind, DefKind::Const { .. } | DefKind::AssocConst { .. }) {
                continue;
            }
            let ty = tcx.type_of(did).instantiate_identity().skip_norm_wip();
            let mut v: Vec<(&str, String)> = Vec::new();
            v.push(("path", js(&path_of(tcx, did))));
            v.push(("ty", js(&ty_str(ty))));
            // initializer tables (`const ID: AlgId = AlgId::Signing(AlgId::_from_signer::<CS>())`): the enum
            // variants built and the fn items called by the initializer of a non-scalar constant
            if !(ty.is_integral() || ty.is_bool()) && tcx.is_mir_available(did) {
                let body = tcx.mir_for_ctfe(did);
                let mut items: Vec<String> = Vec::new();
                for bb in body.basic_blocks.iter() {
                    for st in &bb.statements {
                        if let StatementKind::Assign(b) = &st.kind {
                            let (_, rv) = &**b;
                            if let Rvalue::Aggregate(k, _) = rv {
                                if let AggregateKind::Adt(adt, vidx, _, _, _) = &**k {
                                    let def = tcx.adt_def(*adt);
                                    items.push(js(&format!("variant:{}", def.variant(*vidx).name)));
                                }
                            }
                        }
                    }
                    if let Some(t) = &bb.terminator {
                        if let TerminatorKind::Call { func, .. } = &t.kind {
                            if let Operand::Constant(c) = func {
                                if let ty::FnDef(fd, _) = c.const_.ty().kind() {
                                    items.push(js(&format!("fn:{}", path_of(tcx, *fd))));
                                }
                            }
                        }
                    }
                }
                v.push(("mentions", jarr(items)));
            }
            if ty.is_integral() || ty.is_bool() {
                let r = std::panic::catch_unwind(std::panic::AssertUnwindSafe(|| {
                    tcx.const_eval_poly(did)
                }));
                if let Ok(Ok(cv)) = r {
                    if let Some(si) = cv.try_to_scalar_int() {
                        let size = si.size();
                        let bits = si.to_bits(size);
                        let sval: i128 = if ty.is_signed() {
                            size.sign_extend(bits) as i128
                        } else {
                            bits as i128
                        };
                        v.push(("val", sval.to_string()));
                    }
                }
            }
            out.push(jobj(v));
        }
        out
    }
}

struct Cb;

impl Callbacks for Cb {
    fn after_analysis<'tcx>(&mut self, _c: &Compiler, tcx: TyCtxt<'tcx>) -> Compilation {
        let dir = match std::env::var("VERIF_FACTS_DIR") {
            Ok(d) => d,
            Err(_) => return Compilation::Continue,
        };
        let krate = tcx.crate_name(rustc_hir::def_id::LOCAL_CRATE).to_string();
        if krate == "build_script_build" {
            return Compilation::Continue;
        }
        if tcx.sess.opts.test {
            return Compilation::Continue;
        }
        let tag = std::env::var("VERIF_CONFIG").unwrap_or_else(|_| "default".into());
        let cx = Ctx { tcx };
        let mut fns = Vec::new();
        for ldid in tcx.mir_keys(()) {
            if let Some(j) = cx.body_json(*ldid) {
                fns.push(j);
            }
        }
        let crate_types: Vec<String> =
            tcx.crate_types().iter().map(|t| js(&format!("{:?}", t))).collect();
        let mut feats: Vec<String> = Vec::new();
        let argv: Vec<String> = std::env::args().collect();
        let mut meta = String::new();
        for (i, a) in argv.iter().enumerate() {
            if a == "--cfg" {
                if let Some(n) = argv.get(i + 1) {
                    if let Some(f) = n.strip_prefix("feature=") {
                        feats.push(f.trim_matches('"').to_string());
                    }
                }
            }
            if let Some(m) = a.strip_prefix("metadata=") {
                meta = m.to_string();
            }
        }
        feats.sort();
        let out = jobj(vec![
            ("crate", js(&krate)),
            ("features", jarr(feats.iter().map(|f| js(f)).collect())),
            ("config", js(&tag)),
            ("crate_types", jarr(crate_types)),
            ("fns", jarr(fns)),
            ("adts", jarr(cx.adts_json())),
            ("impls", jarr(cx.impls_json())),
            ("consts", jarr(cx.consts_json())),
        ]);
        let ct = tcx
            .crate_types()
            .first()
            .map(|t| format!("{:?}", t).to_lowercase())
            .unwrap_or_default();
        let path = format!("{}/{}.{}.{}.{}.json", dir, krate, ct, tag, if meta.is_empty() { std::process::id().to_string() } else { meta.clone() });
        let tmp = format!("{}.tmp", path);
        std::fs::write(&tmp, out).expect("write facts");
        std::fs::rename(&tmp, &path).expect("rename facts");
        Compilation::Continue
    }
}

fn main() {
    // RUSTC_WORKSPACE_WRAPPER: argv[1] is the real rustc path; drop argv[0].
    let args: Vec<String> = std::env::args().skip(1).collect();
    rustc_driver::run_compiler(&args, &mut Cb);
}
