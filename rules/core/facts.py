"""Fact loader and per-function CFG / def-use utilities over the driver's MIR dump."""
import glob
import json
import os
import pickle
import re
from collections import defaultdict, deque

from . import extract

_CRATE_RE = re.compile(r"(?<![A-Za-z0-9_])crate::")
# std/alloc re-exports print as std:: or core:: depending on the crate's no_std-ness: normalise
_STD_RE = re.compile(r"(?<![A-Za-z0-9_:])(?:std|alloc)::")


def strip_generics(s):
    """`a::B::<T, U>::f` -> `a::B::f`; `<a::B<T> as c::D<X>>::f` -> `<a::B as c::D>::f`."""
    out = []
    i = 0
    n = len(s)
    depth_stack = []  # 'q' for qualified-self bracket (kept), 'g' for generics (dropped)
    drop = 0
    while i < n:
        c = s[i]
        if c == "<":
            prev = s[i - 1] if i > 0 else ""
            is_generic = bool(prev) and (prev.isalnum() or prev == "_" or prev == ":")
            if drop:
                depth_stack.append("g")
                drop += 1
            elif is_generic:
                depth_stack.append("g")
                drop += 1
                # remove a trailing '::' (turbofish)
                if len(out) >= 2 and out[-1] == ":" and out[-2] == ":":
                    out.pop()
                    out.pop()
            else:
                depth_stack.append("q")
                out.append(c)
        elif c == ">" and (i == 0 or s[i - 1] != "-") and depth_stack:
            k = depth_stack.pop()
            if k == "g":
                drop -= 1
            elif not drop:
                out.append(c)
        else:
            if not drop:
                out.append(c)
        i += 1
    return "".join(out)


class Place:
    __slots__ = ("local", "proj")

    def __init__(self, j):
        self.local = j["l"]
        self.proj = j["p"]

    def is_local(self):
        return not self.proj

    def fields(self):
        return [p[2] if p[2] is not None else str(p[1]) for p in self.proj if p[0] == "f"]

    def last_field(self):
        for p in reversed(self.proj):
            if p[0] == "f":
                return p[2] if p[2] is not None else str(p[1])
        return None

    def __repr__(self):
        s = "_%d" % self.local
        for p in self.proj:
            if p[0] == "d":
                s = "(*%s)" % s
            elif p[0] == "f":
                s += "." + (p[2] if p[2] is not None else str(p[1]))
            elif p[0] == "v":
                s += " as %s" % p[1]
            elif p[0] == "i":
                s += "[_%d]" % p[1]
            else:
                s += "[%s]" % p[0]
        return s


class Operand:
    __slots__ = ("kind", "place", "const")

    def __init__(self, j):
        self.kind = j[0]
        self.place = None
        self.const = None
        if j[0] in ("c", "m"):
            self.place = Place(j[1])
        elif j[0] == "k":
            self.const = j[1]

    @property
    def val(self):
        if self.const is not None:
            return self.const.get("val")
        return None

    @property
    def fn(self):
        if self.const is not None:
            return self.const.get("fn")
        return None

    @property
    def local(self):
        if self.place is not None and not self.place.proj:
            return self.place.local
        return None

    def base_local(self):
        return self.place.local if self.place is not None else None

    def __repr__(self):
        if self.place is not None:
            return ("move " if self.kind == "m" else "") + repr(self.place)
        if self.const is not None:
            return "const %s" % self.const.get("dbg")
        return "?"


class Call:
    """A call terminator."""

    def __init__(self, fn, bb, j):
        self.fn = fn
        self.bb = bb
        self.f = Operand(j["f"])
        self.args = [Operand(a) for a in j["args"]]
        self.dest = Place(j["dest"]) if "dest" in j else None
        self.target = j.get("target")
        self.unwind = j.get("unwind")
        self.line = j["span"]["line"]
        self.exp = j["span"]["exp"]
        self.macs = j["span"]["macs"]
        c = self.f.fn
        self.callee = c
        if c:
            self.path = strip_generics(c["path"])
            self.name = c["name"]
            self.trait = strip_generics(c["trait"]) if c.get("trait") else None
            self.self_ty = c.get("self")
            self.res = strip_generics(c["res"]) if c.get("res") else None
            self.gargs = c.get("gargs")
            self.unsafe = c.get("unsafe", False)
        else:
            self.path = None
            self.name = None
            self.trait = None
            self.self_ty = None
            self.res = None
            self.gargs = None
            self.unsafe = False

    def is_(self, *pats):
        """Match callee by suffix of normalised path (or resolved path) on '::' boundary."""
        for p in pats:
            for cand in (self.path, self.res):
                if cand and path_match(cand, p):
                    return True
        return False

    def site(self):
        return "%s:%d" % (self.fn.file, self.line)

    def __repr__(self):
        return "call %s(%s) @bb%d %s" % (self.path or repr(self.f), ", ".join(map(repr, self.args)), self.bb, self.site())


def path_match(full, pat):
    """pat matches if equal, or full ends with '::'+pat, or (for <..>::m) suffix match."""
    if full == pat:
        return True
    if full.endswith("::" + pat):
        return True
    # `<A as B>::m` pattern parts: allow pat like 'Storage>::commit_heads'
    if pat and full.endswith(pat) and (pat[0] in "<" or full[-len(pat) - 1] in " :<"):
        return True
    return False


class Stmt:
    __slots__ = ("kind", "place", "rv", "line", "exp", "macs", "bb", "idx", "raw")

    def __init__(self, bb, idx, j):
        self.bb = bb
        self.idx = idx
        self.kind = j[0]
        self.raw = j
        self.place = None
        self.rv = None
        if j[0] == "assign":
            self.place = Place(j[1])
            self.rv = j[2]
            sp = j[3]
        elif j[0] == "setdiscr":
            self.place = Place(j[1])
            self.rv = ["setdiscr", j[2]]
            sp = j[3]
        else:
            sp = j[-1]
        self.line = sp.get("line", 0)
        self.exp = sp.get("exp", False)
        self.macs = sp.get("macs", [])

    def rv_kind(self):
        return self.rv[0] if self.rv else None

    def operands(self):
        """All operands read by the rvalue."""
        rv = self.rv
        if not rv:
            return []
        k = rv[0]
        if k == "use":
            return [Operand(rv[1])]
        if k == "repeat":
            return [Operand(rv[1])]
        if k == "cast":
            return [Operand(rv[2])]
        if k == "bin":
            return [Operand(rv[2]), Operand(rv[3])]
        if k == "un":
            return [Operand(rv[2])]
        if k == "agg":
            return [Operand(o) for o in rv[2]]
        return []

    def src_places(self):
        rv = self.rv
        if not rv:
            return []
        k = rv[0]
        if k in ("ref", "rawptr"):
            return [Place(rv[2])]
        if k == "discr":
            return [Place(rv[1])]
        return [o.place for o in self.operands() if o.place is not None]

    def __repr__(self):
        return "%r = %s" % (self.place, json.dumps(self.rv)[:160])


class Fn:
    def __init__(self, crate, j):
        self.crate = crate
        self.j = j
        self.rawpath = j["path"]
        self.path = strip_generics(j["path"])
        self.name = j["name"]
        self.kind = j["kind"]
        self.file = j["file"]
        self.line = j["line"]
        self.exp = j.get("exp", False)
        self.macs = j.get("macs", [])
        self.vis = j.get("vis")
        self.unsafe = j.get("unsafe", False)
        self.root = strip_generics(j["root"]) if "root" in j else None
        self.self_ty = j.get("self_ty")
        self.self_adt = j.get("self_adt")
        self.trait = strip_generics(j["trait"]) if j.get("trait") else None
        self.derived = j.get("derived", False)
        self.nargs = j["nargs"]
        self.locals = j["locals"]
        self._blocks = j["blocks"]
        self.nblocks = len(self._blocks)
        self._calls = None
        self._stmts = None
        self._flat = None
        self._succ = None
        self._pred = None
        self._dom = None
        self._defs = None

    # ---- structure
    def term(self, bb):
        return self._blocks[bb]["t"]

    def is_cleanup(self, bb):
        return self._blocks[bb]["cleanup"]

    def stmts(self, bb=None):
        if self._stmts is None:
            self._stmts = []
            for b, blk in enumerate(self._blocks):
                self._stmts.append([Stmt(b, i, s) for i, s in enumerate(blk["s"])])
        if bb is None:
            if self._flat is None:
                self._flat = [s for b, ss in enumerate(self._stmts) if not self._blocks[b]["cleanup"] for s in ss]
            return self._flat
        return self._stmts[bb]

    @property
    def calls(self):
        if self._calls is None:
            self._calls = []
            for b, blk in enumerate(self._blocks):
                t = blk["t"]
                if t[0] == "call" and not blk["cleanup"]:
                    self._calls.append(Call(self, b, t[1]))
        return self._calls

    def call_at(self, bb):
        for c in self.calls:
            if c.bb == bb:
                return c
        return None

    def calls_to(self, *pats):
        return [c for c in self.calls if c.is_(*pats)]

    def local_name(self, l):
        return self.locals[l].get("name")

    def local_ty(self, l):
        return self.locals[l]["ty"]

    def locals_named(self, name):
        return [i for i, l in enumerate(self.locals) if l.get("name") == name]

    # ---- CFG (normal edges only: no unwind/cleanup edges)
    def succ(self, bb):
        if self._succ is None:
            self._build_cfg()
        return self._succ[bb]

    def pred(self, bb):
        if self._succ is None:
            self._build_cfg()
        return self._pred[bb]

    def _build_cfg(self):
        n = self.nblocks
        succ = [[] for _ in range(n)]
        for b, blk in enumerate(self._blocks):
            t = blk["t"]
            k = t[0]
            if k == "goto":
                succ[b] = [t[1]]
            elif k == "switch":
                ts = [a[1] for a in t[2]] + [t[3]]
                seen = []
                for x in ts:
                    if x not in seen:
                        seen.append(x)
                succ[b] = seen
            elif k == "call":
                if t[1].get("target") is not None:
                    succ[b] = [t[1]["target"]]
            elif k == "drop":
                succ[b] = [t[2]]
            elif k == "assert":
                succ[b] = [t[1]["target"]]
            elif k == "yield":
                succ[b] = [t[1]]
            elif k == "asm":
                succ[b] = list(t[1])
        # drop edges into unreachable-only blocks? keep; they are harmless
        pred = [[] for _ in range(n)]
        for b in range(n):
            for s in succ[b]:
                pred[s].append(b)
        self._succ = succ
        self._pred = pred

    def returns(self):
        return [b for b, blk in enumerate(self._blocks) if blk["t"][0] == "return" and not blk["cleanup"]]

    def is_unreachable_block(self, bb):
        return self.term(bb)[0] == "unreachable"

    def reachable(self, start, cut_edges=(), cut_blocks=(), include_start=True):
        """Blocks reachable from `start` (list or int) over normal edges, not traversing
        cut edges (a,b) and not entering cut blocks."""
        if isinstance(start, int):
            start = [start]
        cut_edges = set(cut_edges)
        cut_blocks = set(cut_blocks)
        seen = set()
        dq = deque()
        for s in start:
            if s in cut_blocks:
                continue
            dq.append(s)
            seen.add(s)
        while dq:
            b = dq.popleft()
            for s in self.succ(b):
                if (b, s) in cut_edges or s in cut_blocks or s in seen:
                    continue
                seen.add(s)
                dq.append(s)
        if not include_start:
            # start is included only if reachable again via a cycle
            pass
        return seen

    def reachable_after(self, bb, cut_edges=(), cut_blocks=()):
        """Blocks reachable strictly after leaving bb."""
        starts = [s for s in self.succ(bb) if (bb, s) not in set(cut_edges)]
        return self.reachable(starts, cut_edges, cut_blocks)

    def dominators(self):
        if self._dom is not None:
            return self._dom
        n = self.nblocks
        reach = self.reachable(0)
        order = []
        seen = set()

        def dfs(b):
            stack = [(b, iter(self.succ(b)))]
            seen.add(b)
            while stack:
                node, it = stack[-1]
                adv = False
                for s in it:
                    if s not in seen:
                        seen.add(s)
                        stack.append((s, iter(self.succ(s))))
                        adv = True
                        break
                if not adv:
                    order.append(node)
                    stack.pop()

        dfs(0)
        rpo = list(reversed(order))
        idx = {b: i for i, b in enumerate(rpo)}
        idom = {0: 0}
        changed = True
        while changed:
            changed = False
            for b in rpo[1:]:
                preds = [p for p in self.pred(b) if p in idom]
                if not preds:
                    continue
                new = preds[0]
                for p in preds[1:]:
                    a, c = p, new
                    while a != c:
                        while idx[a] > idx[c]:
                            a = idom[a]
                        while idx[c] > idx[a]:
                            c = idom[c]
                    new = a
                if idom.get(b) != new:
                    idom[b] = new
                    changed = True
        self._dom = idom
        return idom

    def dominates(self, a, b):
        """a dominates b (reflexive). Unreachable b -> True vacuously? No: False."""
        idom = self.dominators()
        if b not in idom or a not in idom:
            return False
        x = b
        while True:
            if x == a:
                return True
            if x == 0:
                return False
            x = idom[x]

    # ---- def-use
    def defs(self):
        """local -> list of defining sites: ('stmt', Stmt) or ('call', Call)."""
        if self._defs is None:
            d = defaultdict(list)
            for s in self.stmts():
                if s.place is not None and not any(pr[0] == "d" for pr in s.place.proj):
                    # a store through `*p` writes the pointee, it does not define `p`
                    d[s.place.local].append(("stmt", s))
            for c in self.calls:
                if c.dest is not None:
                    d[c.dest.local].append(("call", c))
            self._defs = d
        return self._defs

    def uses_of_local(self, l):
        """Sites that read local l (statements and call args)."""
        out = []
        for s in self.stmts():
            for p in s.src_places():
                if p.local == l:
                    out.append(("stmt", s))
                    break
        for c in self.calls:
            for a in c.args:
                if a.place is not None and a.place.local == l:
                    out.append(("call", c))
                    break
        for b, blk in enumerate(self._blocks):
            t = blk["t"]
            if t[0] == "switch":
                o = Operand(t[1])
                if o.place is not None and o.place.local == l:
                    out.append(("switch", b))
        return out

    def backward_sources(self, local, max_depth=40, through_calls=()):
        """Transitively collect the def sites feeding `local` (through copies, moves, refs,
        casts, field projections, aggregates; through calls whose callee matches any
        pattern in `through_calls`, or all calls if through_calls == '*').
        Field-sensitive for aggregates: reading `_x.k` where `_x = (a, b, ..)` follows only
        operand k."""
        seen = set()
        seen_locals = set()
        sites = []
        work = [(local, None, 0)]
        while work:
            l, fi, d = work.pop()
            if (l, fi) in seen or d > max_depth:
                continue
            seen.add((l, fi))
            seen_locals.add(l)
            for kind, site in self.defs().get(l, []):
                if kind == "stmt":
                    if fi is not None and site.rv_kind() == "agg" and not site.place.proj and site.rv[1].get("k") in ("tuple", "adt"):
                        ops = site.operands()
                        if fi < len(ops):
                            sites.append((kind, site))
                            o = ops[fi]
                            if o.place is not None:
                                work.append(self._src_key(o.place, d))
                            continue
                    if fi is not None and site.place.proj and site.place.proj[0][0] == "f" and site.place.proj[0][1] != fi:
                        continue  # partial def of another field
                    sites.append((kind, site))
                    for p in site.src_places():
                        work.append(self._src_key(p, d))
                else:
                    sites.append((kind, site))
                    if through_calls == "*" or site.is_(*through_calls):
                        for a in site.args:
                            if a.place is not None:
                                work.append(self._src_key(a.place, d))
        return seen_locals, sites

    @staticmethod
    def _src_key(p, d):
        for pr in p.proj:
            if pr[0] == "f":
                return (p.local, pr[1], d + 1)
            if pr[0] in ("d", "v"):
                continue
            break
        return (p.local, None, d + 1)

    def forward_aliases(self, local, through_calls=(), max_iter=60):
        """Locals that (transitively) receive the value of `local` through plain
        use/ref/cast/field-less copies, and through calls in `through_calls`."""
        al = {local}
        changed = True
        it = 0
        while changed and it < max_iter:
            changed = False
            it += 1
            for s in self.stmts():
                if s.place is None or s.place.proj:
                    continue
                if s.place.local in al:
                    continue
                k = s.rv_kind()
                if k in ("use", "ref", "cast", "rawptr"):
                    for p in s.src_places():
                        if p.local in al:
                            al.add(s.place.local)
                            changed = True
                            break
            for c in self.calls:
                if c.dest is None or c.dest.proj or c.dest.local in al:
                    continue
                if through_calls and (through_calls == "*" or c.is_(*through_calls)):
                    for a in c.args:
                        if a.place is not None and a.place.local in al:
                            al.add(c.dest.local)
                            changed = True
                            break
        return al

    # ---- outcome edges
    def switch_on(self, bb):
        t = self.term(bb)
        if t[0] != "switch":
            return None
        return Operand(t[1]), {a[0]: a[1] for a in t[2]}, t[3]

    def outcome_edges(self, call, variants=None, passthrough=None):
        """For a call whose result (Result/Option/ControlFlow/bool) is tested, return
        {variant_name: (switch_bb, target_bb)}.

        Tracks the result through moves, `Try::branch`, `into_iter`-free plain copies and the
        Result-preserving combinators in PASS_THROUGH."""
        if passthrough is None:
            passthrough = PASS_THROUGH
        if call.dest is None:
            return {}
        al = self.forward_aliases(call.dest.local, through_calls=passthrough)
        res = {}
        for s in self.stmts():
            if s.rv_kind() == "discr":
                p = Place(s.rv[1])
                if p.local in al and not p.proj:
                    adt = s.rv[2]
                    # find the switch on this discriminant
                    dl = s.place.local
                    for b in range(self.nblocks):
                        sw = self.switch_on(b)
                        if not sw:
                            continue
                        op, arms, other = sw
                        if op.place is not None and op.place.local == dl and not op.place.proj:
                            names = variant_names(adt, variants)
                            for v, tgt in arms.items():
                                nm = names.get(v, str(v))
                                res.setdefault(nm, (b, tgt))
                            if not self.is_unreachable_block(other):
                                covered = set(arms.keys())
                                for v, nm in names.items():
                                    if v not in covered:
                                        res.setdefault(nm, (b, other))
        # bool payload of the success variant (`if x.is_ancestor(..)? { .. }`)
        if res:
            pl = set()
            for s in self.stmts():
                if s.rv_kind() == "use" and s.place is not None and not s.place.proj:
                    o = Operand(s.rv[1])
                    if o.place is not None and o.place.local in al and any(pr[0] == "v" and pr[1] in ("Continue", "Ok", "Some") for pr in o.place.proj):
                        pl.add(s.place.local)
            pal = set()
            for l in pl:
                if self.local_ty(l) == "bool":
                    pal |= self.forward_aliases(l)
            for b in range(self.nblocks):
                sw = self.switch_on(b)
                if sw and sw[0].place is not None and sw[0].place.local in pal and not sw[0].place.proj:
                    arms, other = sw[1], sw[2]
                    if 0 in arms:
                        res.setdefault("payload_false", (b, arms[0]))
                        res.setdefault("payload_true", (b, other))
        # bool result
        if not res:
            for b in range(self.nblocks):
                sw = self.switch_on(b)
                if not sw:
                    continue
                op, arms, other = sw
                if op.place is not None and op.place.local in al and not op.place.proj:
                    if 0 in arms:
                        res["false"] = (b, arms[0])
                        res["true"] = (b, other)
                    elif 1 in arms:
                        res["true"] = (b, arms[1])
                        res["false"] = (b, other)
        # see through `likely!`/`unlikely!`: each edge only re-materialises the boolean
        # (`_b = const true` / `_b = const false`, maybe after a marker call such as cold()) and a
        # join block switches on `_b` again
        if "true" in res and "false" in res:
            r2 = self._bool_remat(res["true"], res["false"])
            if r2:
                res["true"], res["false"] = r2
        # see through the `let result = match call() { Ok(..) => more()..., Err(e) => Err(e.into()) }; if let Err(e) = result`
        # idiom: the Err arm only re-wraps the error into a new Result local that a join block switches on again
        if "Err" in res:
            r3 = self._variant_remat(res["Err"], "Err")
            if r3:
                res["Err"] = r3[0]
                okk = "Ok" if "Ok" in res else ("Continue" if "Continue" in res else None)
                if okk and r3[1] is not None and self._reaches_straight(res[okk][1], r3[0][0]):
                    res[okk] = r3[1]
        return res

    def _straight_succ(self, b):
        t = self.term(b)
        if t[0] == "goto":
            return t[1]
        if t[0] == "call" and t[1].get("target") is not None:
            return t[1]["target"]
        if t[0] == "drop":
            return t[2] if len(t) > 2 and isinstance(t[2], int) else None
        return None

    def _reaches_straight(self, b, goal, limit=24):
        for _ in range(limit):
            if b == goal:
                return True
            b = self._straight_succ(b)
            if b is None:
                return False
        return False

    def _variant_remat(self, edge, variant, limit=12):
        """edge (switch_bb, target): follow the straight-line code at `target`; if it builds `R = <variant>(..)` for a
        plain local R and runs into a block that switches on discriminant(R), return
        ((that_bb, its target for `variant`), (that_bb, its target for the other variant or None))."""
        b = edge[1]
        R = None
        for _ in range(limit):
            for st in self.stmts(b):
                if st.rv_kind() == "agg" and st.rv[1].get("variant") == variant and st.place is not None and not st.place.proj and st.place.local != 0:
                    R = st.place.local
                if R is not None and st.rv_kind() == "discr" and Place(st.rv[1]).local == R and not Place(st.rv[1]).proj:
                    sw = self.switch_on(b)
                    if sw and sw[0].place is not None and sw[0].place.local == st.place.local:
                        names = variant_names(st.rv[2])
                        tv = other = None
                        for v, tgt in sw[1].items():
                            if names.get(v) == variant:
                                tv = tgt
                            else:
                                other = tgt
                        if tv is None and not self.is_unreachable_block(sw[2]):
                            tv = sw[2]
                        if other is None and not self.is_unreachable_block(sw[2]) and tv != sw[2]:
                            other = sw[2]
                        if tv is not None:
                            return (b, tv), ((b, other) if other is not None else None)
            nb = self._straight_succ(b)
            if nb is None:
                return None
            b = nb
        return None

    def _bool_remat(self, te, fe):
        def follow(b):
            seen = 0
            val = None
            while seen < 6:
                seen += 1
                for st in self.stmts(b):
                    if st.rv_kind() == "use" and st.place is not None and not st.place.proj:
                        o = Operand(st.rv[1])
                        if o.const is not None and o.const.get("ty") == "bool" and o.val in (0, 1):
                            val = (st.place.local, o.val)
                t = self.term(b)
                if t[0] == "goto":
                    b = t[1]
                elif t[0] == "call" and t[1].get("target") is not None and not t[1]["args"]:
                    b = t[1]["target"]
                else:
                    break
                if val is not None and self.switch_on(b):
                    return val[0], val[1], b
            return None
        a, c = follow(te[1]), follow(fe[1])
        if not a or not c or a[0] != c[0] or a[2] != c[2] or {a[1], c[1]} != {0, 1}:
            return None
        sw = self.switch_on(a[2])
        if not sw or sw[0].place is None or sw[0].place.local != a[0]:
            return None
        t_tgt = sw[2] if 0 in sw[1] else sw[1].get(1)
        f_tgt = sw[1].get(0, sw[2])
        if a[1] == 1:
            return (a[2], t_tgt), (a[2], f_tgt)
        return (a[2], f_tgt), (a[2], t_tgt)

    def discr_switches(self, adt_suffix):
        """Switches on the discriminant of an ADT whose path ends with adt_suffix:
        [(switch_bb, {variant_name: target}, otherwise_bb, discr_stmt)]."""
        out = []
        for s in self.stmts():
            if s.rv_kind() == "discr" and s.rv[2] and (adt_suffix is None or path_match(strip_generics(s.rv[2]), adt_suffix)):
                names = variant_names(s.rv[2])
                for b in range(self.nblocks):
                    sw = self.switch_on(b)
                    if sw and sw[0].place is not None and sw[0].place.local == s.place.local and not sw[0].place.proj:
                        arms = {}
                        for v, t in sw[1].items():
                            arms[names.get(v, str(v))] = t
                        out.append((b, arms, sw[2], s))
        return out

    def variant_edge(self, sw, variant):
        """For a discriminant switch tuple from discr_switches, the block that is entered exactly
        when the value is `variant`; sees through `matches!` (arm sets a bool that is then
        switched on). Returns (true_block, false_blocks)."""
        b, arms, other, st = sw
        if variant not in arms:
            return None
        t = arms[variant]
        others = [x for v, x in arms.items() if v != variant]
        if not self.is_unreachable_block(other):
            others.append(other)
        # matches!: t: `_b = const true; goto J`, others: `_b = const false; goto J`, J: switch _b
        ss = self.stmts(t)
        if len(ss) == 1 and ss[0].rv_kind() == "use" and Operand(ss[0].rv[1]).const is not None and Operand(ss[0].rv[1]).val == 1 \
                and self.term(t)[0] == "goto":
            bl = ss[0].place.local
            j = self.term(t)[1]
            # walk gotos
            hops = 0
            while self.term(j)[0] == "goto" and hops < 4 and not self.stmts(j):
                j = self.term(j)[1]
                hops += 1
            sw2 = self.switch_on(j)
            if sw2 and sw2[0].place is not None and sw2[0].place.local == bl:
                tt = sw2[2] if 0 in sw2[1] else sw2[1].get(1)
                ff = sw2[1].get(0, sw2[2])
                return tt, [ff]
        return t, others

    def outer_switch(self, switches):
        """the dispatch switch: the one whose block dominates every other *reachable* one."""
        idom = self.dominators()
        live = [x for x in switches if x[0] in idom]
        for x in live:
            if all(self.dominates(x[0], y[0]) for y in live):
                return x
        # drop elaboration can add a discriminant switch on an error-exit path that bypasses the
        # dispatch: take the switch from which the most calls are reachable through its arms
        best = None
        for x in live:
            score = len({c.bb for c in self.calls if any(self.dominates(t, c.bb) for t in x[1].values())})
            if best is None or score > best[0]:
                best = (score, x)
        return best[1] if best else None

    def dominated_region(self, bb):
        return {b for b in self.reachable(bb) if self.dominates(bb, b)}

    def calls_in(self, region):
        return [c for c in self.calls if c.bb in region]

    def stmts_in(self, region):
        return [s for s in self.stmts() if s.bb in region]

    def cmp_switches(self):
        """Comparisons whose boolean result is branched on:
        dicts {op, a, b, stmt, bb (switch block), t (true target), f (false target), eq, ne}."""
        out = []
        for s in self.stmts():
            if s.rv_kind() == "bin" and s.rv[1] in ("Eq", "Ne", "Lt", "Le", "Gt", "Ge") and s.place is not None and not s.place.proj:
                al = self.forward_aliases(s.place.local, through_calls=("Not::not",)) if False else {s.place.local}
                for b in range(self.nblocks):
                    sw = self.switch_on(b)
                    if not sw:
                        continue
                    op, arms, other = sw
                    if op.place is not None and op.place.local in al and not op.place.proj:
                        f = arms.get(0, None)
                        t = other if 0 in arms else arms.get(1)
                        if f is None:
                            f = other
                        d = {"op": s.rv[1], "a": Operand(s.rv[2]), "b": Operand(s.rv[3]), "stmt": s, "bb": b, "t": t, "f": f}
                        if s.rv[1] == "Eq":
                            d["eq"], d["ne"] = t, f
                        elif s.rv[1] == "Ne":
                            d["eq"], d["ne"] = f, t
                        out.append(d)
        # PartialEq::eq / ne and PartialOrd::{lt,le,gt,ge} calls
        names = {"eq": "Eq", "ne": "Ne", "lt": "Lt", "le": "Le", "gt": "Gt", "ge": "Ge"}
        for c in self.calls:
            if c.is_("cmp::PartialEq::eq", "cmp::PartialEq::ne", "cmp::PartialOrd::lt", "cmp::PartialOrd::le", "cmp::PartialOrd::gt", "cmp::PartialOrd::ge") and c.dest is not None and len(c.args) == 2:
                oe = self.outcome_edges(c, passthrough=("Not::not",))
                if "true" in oe:
                    d = {"op": names[c.name], "a": c.args[0], "b": c.args[1], "stmt": None, "call": c,
                         "bb": oe["true"][0], "t": oe["true"][1], "f": oe["false"][1]}
                    if c.name == "eq":
                        d["eq"], d["ne"] = d["t"], d["f"]
                    elif c.name == "ne":
                        d["eq"], d["ne"] = d["f"], d["t"]
                    out.append(d)
        return out

    def derives_from_field(self, operand, field, max_depth=12):
        """Does the operand's value derive (through copies/refs/calls) from a place with this field name?"""
        if operand is None or operand.place is None:
            return False
        if field in operand.place.fields():
            return True
        locs, sites = self.backward_sources(operand.place.local, max_depth=max_depth, through_calls="*")
        for k, d in sites:
            if k == "stmt":
                for p in d.src_places():
                    if field in p.fields():
                        return True
            else:
                for a in d.args:
                    if a.place is not None and field in a.place.fields():
                        return True
        return False

    def const_defs(self, const):
        """Named constants a constant operand stands for: its own `def`, or (for a promoted
        `&CONST`) every named constant mentioned by the promoted body."""
        out = []
        if const is None:
            return out
        if const.get("promoted") is not None:
            pm = self.j.get("promoted", [])
            i = const["promoted"]
            if i < len(pm):
                for c in pm[i]:
                    if c.get("def"):
                        out.append(c["def"])
                    if c.get("fn"):
                        out.append(c["fn"]["path"])
        elif const.get("def"):
            out.append(const["def"])
        return out

    def upvar_names(self):
        """closure env field index -> captured variable name"""
        out = {}
        for up in self.j.get("upvars", []):
            for pr in up["place"]["p"]:
                if pr[0] == "f":
                    out[pr[1]] = up["name"]
                    break
        return out

    def origins(self, operand, through_calls="*", max_depth=30):
        """Where an operand's value comes from: {'arg:<n>', 'argname:<name>', 'upvar:<name>', 'field:<f>', 'call:<name>', 'const'}"""
        out = set()
        if operand is None:
            return out
        if operand.const is not None:
            out.add("const")
            return out
        ups = self.upvar_names() if self.kind == "Closure" else {}

        def place_tags(p):
            if 1 <= p.local <= self.nargs:
                if self.kind == "Closure" and p.local == 1:
                    fs = [pr for pr in p.proj if pr[0] == "f"]
                    if fs and fs[0][1] in ups:
                        out.add("upvar:" + ups[fs[0][1]])
                        for pr in fs[1:]:
                            out.add("field:" + (pr[2] or str(pr[1])))
                        return
                out.add("arg:%d" % p.local)
                nm = self.local_name(p.local)
                if nm:
                    out.add("argname:" + nm)
            for f in p.fields():
                out.add("field:" + f)
        place_tags(operand.place)
        locs, sites = self.backward_sources(operand.place.local, max_depth=max_depth, through_calls=through_calls)
        for k, d in sites:
            if k == "stmt":
                for p in d.src_places():
                    place_tags(p)
                for o in d.operands():
                    if o.const is not None:
                        out.add("const")
            else:
                out.add("call:" + (d.name or "?"))
                if through_calls == "*" or d.is_(*through_calls):
                    for a in d.args:
                        if a.place is not None:
                            place_tags(a.place)
        return out

    def field_stores(self, field):
        """Statements that write a place whose last field is `field` (e.g. `(*self).state = ..`)."""
        return [s for s in self.stmts() if s.place is not None and s.place.proj and s.place.last_field() == field
                and s.place.proj[-1][0] == "f"]

    def closures_in_args(self, call, F):
        """Closure bodies passed (by value) to this call."""
        out = []
        for a in call.args:
            if a.place is None:
                continue
            for kind, site in self.defs().get(a.place.local, []):
                if kind == "stmt" and site.rv_kind() == "agg" and site.rv[1].get("k") == "closure":
                    f = F.fn_exact(strip_generics(site.rv[1]["def"]))
                    if f:
                        out.append(f)
        for a in call.args:
            if a.const is not None and a.const.get("closure"):
                f = F.fn_exact(strip_generics(a.const["closure"]))
                if f:
                    out.append(f)
        return out

    def site(self, line=None):
        return "%s:%d" % (self.file, line if line is not None else self.line)

    def __repr__(self):
        return "Fn(%s)" % self.path


CORE_VARIANTS = {
    "result::Result": {0: "Ok", 1: "Err"},
    "option::Option": {0: "None", 1: "Some"},
    "ops::ControlFlow": {0: "Continue", 1: "Break"},
    "ops::control_flow::ControlFlow": {0: "Continue", 1: "Break"},
    "cmp::Ordering": {-1: "Less", 0: "Equal", 1: "Greater", 255: "Less"},
    "collections::btree::map::entry::Entry": {0: "Vacant", 1: "Occupied"},
    "borrow::Cow": {0: "Borrowed", 1: "Owned"},
}


def _nostd(a):
    for pre in ("std::", "core::", "alloc::"):
        if a.startswith(pre):
            return a[len(pre):]
    return a

_ADT_VARIANTS = {}


def variant_names(adt, extra=None):
    if adt is None:
        return {}
    a = strip_generics(adt)
    if _nostd(a) in CORE_VARIANTS:
        return CORE_VARIANTS[_nostd(a)]
    if a in _ADT_VARIANTS:
        return _ADT_VARIANTS[a]
    if extra and a in extra:
        return extra[a]
    return {}


# Calls through which a Result/Option keeps its Ok/Err (Some/None) identity.
PASS_THROUGH = (
    "Try::branch",
    "result::Result::map_err",
    "result::Result::inspect_err",
    "result::Result::inspect",
    "result::Result::map",
    "option::Option::ok_or",
    "option::Option::ok_or_else",
    "option::Option::map",
    "option::Option::inspect",
    "buggy::BugExt::assume",
)


class Facts:
    def __init__(self, crates, config="main", repo=None):
        self.config = config
        self.repo = repo or extract.REPO
        d, th, fresh = extract.facts_dir(config) if repo is None else extract.facts_dir(config, repo)
        self.dir = d
        self.tree = th
        self.fresh = fresh
        self.crates = {}
        self.fns = []
        self.by_path = defaultdict(list)
        self.adts = {}
        self.impls = []
        self.consts = {}
        self.files = []
        for c in crates:
            self._load(c)

    def _load(self, crate):
        cands = glob.glob(os.path.join(self.dir, crate + ".*.json"))
        if not cands:
            raise MissingFacts("no fact file for crate %s in %s" % (crate, self.dir))
        best = None
        for f in cands:
            with open(f) as fh:
                head = fh.read(4096)
            m = re.search(r'"features":\[([^\]]*)\]', head)
            nfeat = len([x for x in m.group(1).split(",") if x.strip()]) if m else 0
            key = (nfeat, os.path.getsize(f), f)
            if best is None or key > best[0]:
                best = (key, f)
        f = best[1]
        pk = f + ".pkl"
        j = None
        if os.path.exists(pk):
            try:
                with open(pk, "rb") as fh:
                    j = pickle.load(fh)
            except Exception:
                j = None
        if j is None:
            with open(f) as fh:
                txt = fh.read()
            j = json.loads(_STD_RE.sub("core::", _CRATE_RE.sub(crate + "::", txt)))
            try:
                tmp = pk + ".%d.tmp" % os.getpid()
                with open(tmp, "wb") as fh:
                    pickle.dump(j, fh, protocol=pickle.HIGHEST_PROTOCOL)
                os.replace(tmp, pk)
            except OSError:
                pass
        self.files.append(os.path.basename(f))
        self.crates[crate] = j
        for fj in j["fns"]:
            f = Fn(crate, fj)
            self.fns.append(f)
            self.by_path[f.path].append(f)
        for a in j["adts"]:
            p = strip_generics(a["path"])
            self.adts[p] = a
            if a["kind"] == "Enum":
                _ADT_VARIANTS[p] = {int(v["discr"]): v["name"] for v in a["variants"] if v["discr"] is not None}
        for i in j["impls"]:
            i = dict(i)
            i["crate"] = crate
            if i.get("trait"):
                i["trait"] = strip_generics(i["trait"])
            if i.get("self_adt"):
                i["self_adt"] = strip_generics(i["self_adt"])
            self.impls.append(i)
        for c in j["consts"]:
            self.consts[strip_generics(c["path"])] = c

    # ---- lookup
    def fn_exact(self, path):
        l = self.by_path.get(path)
        return l[0] if l else None

    def find(self, pat):
        """All fns whose normalised path matches pat (suffix on :: boundary)."""
        out = []
        for f in self.fns:
            if path_match(f.path, pat):
                out.append(f)
        return out

    def fn(self, pat):
        """Exactly one function or raise Missing."""
        l = self.find(pat)
        if len(l) == 1:
            return l[0]
        if not l:
            raise MissingAnchor("function %s not found" % pat)
        # prefer exact
        ex = [f for f in l if f.path == pat]
        if len(ex) == 1:
            return ex[0]
        raise MissingAnchor("function %s ambiguous: %s" % (pat, [f.path for f in l][:6]))

    def closures_of(self, fn):
        return [f for f in self.fns if f.root == fn.path and f is not fn]

    def adt(self, pat):
        for p, a in self.adts.items():
            if path_match(p, pat):
                return a
        # re-exported items print with their visible path from other crates
        crate, last = pat.split("::")[0], pat.split("::")[-1]
        c = [a for p, a in self.adts.items() if p.split("::")[0] == crate and p.split("::")[-1] == last]
        if len(c) == 1:
            return c[0]
        raise MissingAnchor("ADT %s not found" % pat)

    def impls_of(self, adt_pat=None, trait_pat=None):
        out = []
        for i in self.impls:
            if adt_pat is not None and not (i.get("self_adt") and path_match(i["self_adt"], adt_pat)):
                continue
            if trait_pat is not None and not (i.get("trait") and path_match(i["trait"], trait_pat)):
                continue
            out.append(i)
        return out

    def fns_in_file(self, suffix):
        return [f for f in self.fns if f.file.endswith(suffix)]

    def callers_of(self, *pats):
        """All (fn, call) in loaded crates calling a callee matching pats."""
        out = []
        for f in self.fns:
            for c in f.calls:
                if c.is_(*pats):
                    out.append((f, c))
        return out


class MissingAnchor(Exception):
    pass


class MissingFacts(Exception):
    pass
