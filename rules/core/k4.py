"""K4: may-panic reachability over the local call graph.

From a set of entry functions, walk the call graph through local code (closures
created in a visited function are visited; unresolved trait-method calls are
resolved by class-hierarchy analysis over the loaded impls) and collect every
panicking construct. Sites are classed:

  hard     - panics in every profile (unwrap/expect, index, bounds check, div by zero,
             panic!/unreachable!/todo!/assert!, slice ops that panic on bad ranges)
  overflow - arithmetic overflow asserts (only with overflow checks: dev/test profile)
  bug      - buggy::Bug construction (`bug!`, `.assume()`), `debug_assert!`: a panic only
             with debug assertions, an internal-error return otherwise

`hard` and `overflow` sites must be listed in the audit table by key and count;
`bug` sites are audited per function.
"""
import json
import os
import re
from collections import defaultdict

from .facts import Operand, path_match, strip_generics

IGNORED_ASSERTS = ("MisalignedPointerDereference", "NullPointerDereference", "InvalidEnumConstruction")

# external callees that may panic: (suffix pattern, short kind)
HARD_CALLEES = [
    ("option::Option::unwrap", "unwrap"),
    ("option::Option::expect", "expect"),
    ("result::Result::unwrap", "unwrap"),
    ("result::Result::expect", "expect"),
    ("result::Result::unwrap_err", "unwrap"),
    ("result::Result::expect_err", "expect"),
    ("Index::index", "index"),
    ("IndexMut::index_mut", "index"),
    ("slice::copy_from_slice", "copy_from_slice"),
    ("slice::clone_from_slice", "clone_from_slice"),
    ("slice::split_at", "split_at"),
    ("slice::split_at_mut", "split_at"),
    ("slice::swap", "slice_swap"),
    ("slice::copy_within", "copy_within"),
    ("slice::rotate_left", "rotate"),
    ("slice::rotate_right", "rotate"),
    ("slice::chunks", "chunks"),
    ("slice::chunks_exact", "chunks"),
    ("slice::windows", "windows"),
    ("str::split_at", "split_at"),
    ("vec::Vec::remove", "vec_remove"),
    ("vec::Vec::insert", "vec_insert"),
    ("vec::Vec::swap_remove", "vec_swap_remove"),
    ("vec::Vec::drain", "vec_drain"),
    ("vec::Vec::split_off", "vec_split_off"),
    ("vec_deque::VecDeque::remove", "vec_remove"),
    ("string::String::insert", "string_insert"),
    ("string::String::remove", "string_remove"),
    ("string::String::truncate", "string_truncate"),
    ("string::String::drain", "string_drain"),
    ("string::String::replace_range", "string_replace_range"),
    ("cell::RefCell::borrow", "refcell"),
    ("cell::RefCell::borrow_mut", "refcell"),
    ("Iterator::step_by", "step_by"),
    ("panicking::panic", "panic"),
    ("panicking::panic_fmt", "panic"),
    ("panicking::panic_explicit", "panic"),
    ("panicking::panic_display", "panic"),
    ("panicking::panic_nounwind", "panic"),
    ("panicking::unreachable_display", "panic"),
    ("panicking::assert_failed", "assert"),
    ("panicking::assert_matches_failed", "assert"),
    ("panicking::panic_bounds_check", "panic"),
    ("panicking::begin_panic", "panic"),
    ("rt::begin_panic", "panic"),
    ("rt::panic_fmt", "panic"),
    ("option::unwrap_failed", "panic"),
    ("option::expect_failed", "panic"),
    ("result::unwrap_failed", "panic"),
    ("Iterator::product", "iter_product"),   # integer product/sum panic on overflow (overflow checks on)
    ("Iterator::sum", "iter_sum"),
    ("heapless::Vec::extend_from_slice", None),  # returns Result; not a panic
]
HARD_PREFIXES = ["core::panicking::panic_const::", "core::slice::index::slice_"]
PANIC_MACROS = ("todo", "unimplemented", "unreachable", "panic", "assert", "assert_eq", "assert_ne", "assert_matches")

BUG_CALLEES = ["buggy::Bug::new", "buggy::Bug::new_with_source", "buggy::BugExt::assume"]

DEBUG_ONLY_MACROS = ("debug_assert", "debug_assert_eq", "debug_assert_ne")

# Allocation requests whose element count is an argument: `capacity overflow` panics when
# count * size_of::<T>() exceeds isize::MAX. (callee suffix, index of the count argument)
ALLOC_CALLEES = [
    ("vec::Vec::with_capacity", 0), ("vec::Vec::with_capacity_in", 0), ("vec::Vec::reserve", 1), ("vec::Vec::reserve_exact", 1),
    ("vec::Vec::resize", 1), ("vec::Vec::resize_with", 1), ("vec::from_elem", 1), ("string::String::with_capacity", 0),
    ("string::String::reserve", 1), ("vec_deque::VecDeque::with_capacity", 0), ("vec_deque::VecDeque::reserve", 1),
    ("slice::repeat", 1), ("str::repeat", 1), ("boxed::Box::new_uninit_slice", 0), ("boxed::Box::new_zeroed_slice", 0),
]
# a count that is the size of something that already exists (or a literal) cannot overflow
SIZE_OF_EXISTING = ("call:len", "call:size_hint", "call:count", "call:capacity", "call:serialized_size", "call:encoded_len")


def alloc_site(fn, call):
    """('hard', 'alloc-size[callee]') when the call asks for an allocation whose element count is neither a
    constant nor the length of an existing object."""
    p = call.path
    if not p:
        return None
    for pat, idx in ALLOC_CALLEES:
        if path_match(p, pat):
            if idx >= len(call.args):
                return None
            a = call.args[idx]
            if a.const is not None:
                return None
            og = fn.origins(a, through_calls=("Into::into", "From::from", "cmp::min", "Ord::min", "usize::min", "saturating_sub", "Try::branch",
                                              "TryFrom::try_from", "TryInto::try_into"))
            if any(t in og for t in SIZE_OF_EXISTING) or "call:min" in og:
                return None
            if og <= {"const"}:
                return None
            return ("hard", "alloc-size[%s]" % call.name)
    return None


def callee_kind(call):
    """Return (class, kind) if this call is a panic source, else None."""
    p = call.path
    if not p:
        return None
    if p.startswith("std::"):
        p = "core::" + p[5:]
    for pat in BUG_CALLEES:
        if path_match(p, pat):
            return ("bug", call.name)
    for pre in HARD_PREFIXES:
        if p.startswith(pre):
            if any(m in DEBUG_ONLY_MACROS for m in call.macs):
                return ("bug", "debug_assert")
            mac = next((m for m in reversed(call.macs) if m in PANIC_MACROS), None)
            return ("hard", mac or "panic")
    for pat, kind in HARD_CALLEES:
        if kind is None:
            continue
        if path_match(p, pat):
            if any(m in DEBUG_ONLY_MACROS for m in call.macs):
                return ("bug", "debug_assert")
            if kind in ("panic", "assert"):
                mac = next((m for m in reversed(call.macs) if m in PANIC_MACROS), None)
                if mac:
                    return ("hard", mac)
            if kind == "index":
                st = call.self_ty or ""
                return ("hard", "index[%s]" % short_ty(st))
            return ("hard", kind)
    return None


def short_ty(t):
    t = strip_generics(t)
    t = t.replace("&mut ", "").replace("&", "")
    return t.split("::")[-1] if "::" in t and not t.startswith("[") else t


# Callee names that matter for a bounds / arithmetic argument. The *fingerprint* of an audited site is the
# set of such calls its operands are computed from: the audit's reason ("idx is checked_sub's Some value")
# is an argument about exactly this dataflow, so when it changes the audit is stale.
FP_RE = re.compile(r"^(checked_|saturating_|wrapping_|overflowing_|unchecked_|strict_|binary_search|split_|chunks|from_[lbn]e_bytes$|to_[lbn]e_bytes$)"
                   r"|^(min|max|clamp|len|position|rposition|find|get|get_mut|first|last|try_from|try_into|count|size_hint|capacity|rem_euclid|div_euclid|abs|"
                   r"unsigned_abs|pow|next_power_of_two|leading_zeros|trailing_zeros|parse|partition_point|windows|align_offset|offset_from|sub|add|mul|div|rem|neg|"
                   r"is_empty|is_char_boundary|char_indices|checked|ok_or|ok_or_else|unwrap_or|unwrap_or_default|unwrap_or_else|assume)$")


class Site:
    __slots__ = ("fn", "cls", "kind", "line", "macs", "chain", "ops")

    def __init__(self, fn, cls, kind, line, macs, ops=()):
        self.fn = fn
        self.cls = cls
        self.kind = kind
        self.line = line
        self.macs = macs
        self.ops = ops

    def fingerprint(self):
        tags = set()
        for o in self.ops:
            if o is None or o.place is None:
                continue
            for t in self.fn.origins(o, through_calls="*", max_depth=16):
                if t.startswith("call:") and FP_RE.search(t[5:]):
                    tags.add(t[5:])
        return ",".join(sorted(tags))

    def key(self):
        return (self.fn.path, self.kind)


class CallGraph:
    def __init__(self, F):
        self.F = F
        self.trait_impls = defaultdict(list)  # (trait, method) -> [Fn]
        for f in F.fns:
            if f.trait and f.kind == "AssocFn":
                self.trait_impls[(f.trait, f.name)].append(f)
        self.closures = defaultdict(list)
        for f in F.fns:
            if f.root:
                self.closures[f.root].append(f)

    def callees(self, fn, stats=None):
        out = []
        F = self.F
        for c in fn.calls:
            if not c.path:
                continue
            tgt = None
            if c.res:
                tgt = F.fn_exact(c.res)
                if tgt:
                    out.append(tgt)
                    continue
            t = F.fn_exact(c.path)
            if t and not (c.trait and t.j.get("in_trait")):
                out.append(t)
                continue
            if t and c.trait and t.j.get("in_trait"):
                # default method body of a local trait: visit it too
                out.append(t)
            if c.trait:
                impls = self.trait_impls.get((c.trait, c.name), [])
                if impls:
                    st = strip_generics(c.self_ty or "")
                    st = st.replace("&mut ", "").replace("&", "")
                    narrowed = [i for i in impls if i.self_adt and strip_generics(i.self_adt) == st]
                    chosen = narrowed if narrowed else impls
                    out.extend(chosen)
                    if stats is not None and not narrowed:
                        stats["cha_wide"] += 1
                elif c.name == "into" and path_match(c.trait, "convert::Into"):
                    out.extend(self._from_impls(c, "convert::From", "from"))
                elif c.name == "try_into" and path_match(c.trait, "convert::TryInto"):
                    out.extend(self._from_impls(c, "convert::TryFrom", "try_from"))
                elif c.name == "to_string":
                    pass
        out.extend(self.closures.get(fn.path, []))
        # dedupe
        seen = set()
        res = []
        for f in out:
            if id(f) not in seen:
                seen.add(id(f))
                res.append(f)
        return res

    def _from_impls(self, c, trait_suffix, name):
        # gargs "[T, U]": into::<T,U>: impl From<T> for U
        res = []
        g = c.gargs or ""
        for (tr, nm), impls in self.trait_impls.items():
            if nm == name and path_match(tr, trait_suffix):
                for i in impls:
                    if i.self_adt and strip_generics(i.self_adt) in strip_generics(g):
                        res.append(i)
        return res

    def reach(self, entries, stop=(), scope=None):
        seen = {}
        order = []
        stats = defaultdict(int)
        self.boundary = set()
        work = [(e, None) for e in entries]
        while work:
            f, parent = work.pop()
            if id(f) in seen:
                continue
            if any(path_match(f.path, s) for s in stop):
                continue
            if scope is not None and parent is not None and not any(sc in f.path for sc in scope):
                self.boundary.add(f.path)
                continue
            seen[id(f)] = parent
            order.append(f)
            for g in self.callees(f, stats):
                if id(g) not in seen:
                    work.append((g, f))
        return order, seen, stats


FP_FILE = os.path.join(os.path.dirname(os.path.dirname(os.path.abspath(__file__))), "tables", "k4_fingerprints.json")
try:
    with open(FP_FILE) as _fh:
        FINGERPRINTS = json.load(_fh)
except OSError:
    FINGERPRINTS = {}
FREEZE = {} if os.environ.get("VERIF_K4_FREEZE") else None


def bug_message(fn, site):
    """the message of a bug!/assume site (its identity inside the function), or its kind"""
    for c in fn.calls:
        if c.line == site.line:
            ck = callee_kind(c)
            if ck and ck[0] == "bug":
                for a in c.args:
                    if a.const is not None and isinstance(a.const.get("dbg"), str) and a.const["dbg"].startswith('"'):
                        return a.const["dbg"].strip('"')[:80]
    return site.kind


def multiset_le(a, b):
    b = list(b)
    for x in a:
        if x in b:
            b.remove(x)
        else:
            return False
    return True


def sites_in(fn):
    out = []
    for b in range(fn.nblocks):
        if fn.is_cleanup(b):
            continue
        t = fn.term(b)
        if t[0] == "assert":
            a = t[1]
            k = a["kind"]
            if k in IGNORED_ASSERTS:
                continue
            macs = a["span"]["macs"]
            ops = (Operand(a["cond"]),) if a.get("cond") else ()
            if k.startswith("Overflow"):
                out.append(Site(fn, "overflow", k, a["span"]["line"], macs, ops))
            else:
                out.append(Site(fn, "hard", k, a["span"]["line"], macs, ops))
    for c in fn.calls:
        ck = callee_kind(c) or alloc_site(fn, c)
        if ck:
            out.append(Site(fn, ck[0], ck[1], c.line, c.macs, tuple(c.args)))
    return out


def chain_of(seen, fn, by_id):
    ch = [fn.path]
    p = seen.get(id(fn))
    n = 0
    while p is not None and n < 12:
        ch.append(p.path)
        p = seen.get(id(p))
        n += 1
    return " <- ".join(ch)


def run_k4(F, rep, entries, audit, bug_audit, rule="K4 may-panic", stop=(), skip_derived=True, scope=None):
    """entries: list of Fn. audit: {(fn_path_suffix, kind): (count, reason)}.
    bug_audit: {fn_path_suffix: reason} functions allowed to hold `bug`-class sites."""
    cg = CallGraph(F)
    order, seen, stats = cg.reach(entries, stop, scope)
    found = defaultdict(list)
    bug_fns = defaultdict(list)
    nsites = 0
    for f in order:
        for s in sites_in(f):
            nsites += 1
            if s.cls == "bug":
                bug_fns[f.path].append(s)
            else:
                found[(f.path, s.kind)].append(s)
    used = set()
    for (fp, kind), sites in sorted(found.items()):
        ent = None
        for (ap, ak), v in audit.items():
            if ak == kind and path_match(fp, ap):
                ent = ((ap, ak), v)
                break
        f = sites[0].fn
        site = "%s:%s" % (f.file, ",".join(str(s.line) for s in sites))
        if ent is None:
            rep.violation("%s|%s|unaudited" % (fp, kind), rule,
                          "may-panic site (%s) `%s` x%d reachable and not in the audit table; path: %s" % (
                              sites[0].cls, kind, len(sites), chain_of(seen, f, None)), site)
        else:
            used.add(ent[0])
            cnt, reason = ent[1]
            fkey = "%s|%s|%s" % (rep.pid, fp, kind)
            cur = sorted(s_.fingerprint() for s_ in sites)
            if FREEZE is not None:
                FREEZE[fkey] = cur
            frozen = FINGERPRINTS.get(fkey)
            if frozen is not None and FREEZE is None and not set(cur) <= set(frozen):
                rep.violation("%s|%s|audit-stale" % (fp, kind), rule,
                              "the audited may-panic site `%s` in %s is now computed differently: its operands derive from {%s}, the audit (%s) was made for {%s}. "
                              "Re-audit the site and refreeze (tools/k4_freeze.py) if it is still safe" % (
                                  kind, fp, " ; ".join(x or "-" for x in cur), reason, " ; ".join(x or "-" for x in frozen)), site)
            elif len(sites) > cnt:
                rep.violation("%s|%s|count" % (fp, kind), rule,
                              "%d `%s` sites in %s but only %d audited (%s); path: %s" % (
                                  len(sites), kind, fp, cnt, reason, chain_of(seen, f, None)), site)
            else:
                rep.ok(rule, "%s: %s x%d audited: %s" % (fp, kind, len(sites), reason), site)
    glob_cur = defaultdict(int)
    for fp_, sites_ in bug_fns.items():
        for s_ in sites_:
            glob_cur[bug_message(s_.fn, s_)] += 1
    glob_frozen = defaultdict(int)
    for k_, v_ in FINGERPRINTS.items():
        if k_.startswith(rep.pid + "|") and k_.endswith("|bug-class"):
            for m_ in v_:
                glob_frozen[m_] += 1
    for fp, sites in sorted(bug_fns.items()):
        ok = None
        for ap, reason in bug_audit.items():
            if path_match(fp, ap) or (ap.endswith("*") and ap[:-1] in fp):
                ok = reason
                break
        f = sites[0].fn
        site = "%s:%s" % (f.file, ",".join(str(s.line) for s in sites))
        fkey = "%s|%s|bug-class" % (rep.pid, fp)
        msgs = sorted(bug_message(f, s_) for s_ in sites)
        if FREEZE is not None:
            FREEZE[fkey] = msgs
        frozen = FINGERPRINTS.get(fkey)
        if ok is not None and frozen is not None and FREEZE is None and not multiset_le(msgs, frozen):
            extra = list(msgs)
            for x in frozen:
                if x in extra:
                    extra.remove(x)
            # a site that merely moved between audited functions (helper inlined / extracted) is the same audited
            # site: only messages whose count over all audited functions grew are new
            extra = [x for x in extra if glob_cur.get(x, 0) > glob_frozen.get(x, 0)]
            if not extra:
                rep.ok(rule, "%s: %d bug-class sites (%s; a site moved here from another audited function)" % (fp, len(sites), ok), site)
                continue
            rep.violation("%s|bug-class|audit-stale" % fp, rule,
                          "%s holds internal-error sites that were not there when the function was audited (%s): %s. `bug!`/`assume` panic in debug builds; "
                          "audit the new site (is its condition out of reach of every input?) and refreeze (tools/k4_freeze.py)" % (fp, ok, extra), site)
        elif ok is None:
            rep.violation("%s|bug-class|unaudited" % fp, rule,
                          "function on an entry path holds %d internal-error (`bug!`/`assume`/debug_assert) sites "
                          "and is not audited (panic with debug assertions); path: %s" % (len(sites), chain_of(seen, f, None)), site)
        else:
            rep.ok(rule, "%s: %d bug-class sites (%s)" % (fp, len(sites), ok), site)
    rep.stats.setdefault("k4", []).append({
        "entries": [e.path for e in entries], "functions_reached": len(order), "sites": nsites,
        "cha_wide_resolutions": stats.get("cha_wide", 0),
        "scope": list(scope) if scope else "all loaded crates",
        "boundary_functions_not_descended": sorted(cg.boundary)[:60]})
    return order, found, bug_fns
