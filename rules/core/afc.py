"""Shared rule instances for the AFC shared-memory state (C40, C41, C42)."""
from . import pat, atomics
from .facts import Operand, Place, PASS_THROUGH

W = "aranya_fast_channels::shm::write::WriteState"
R = "aranya_fast_channels::shm::read::ReadState"


def impl_fn(F, adt, trait_suffix, name):
    c = [f for f in F.fns if f.name == name and f.self_adt == adt and f.trait and f.trait.endswith(trait_suffix)]
    if len(c) != 1:
        from .facts import MissingAnchor
        raise MissingAnchor("%s::%s (%s): found %d" % (adt.split("::")[-1], name, trait_suffix, len(c)))
    return c[0]


MUTATORS = {
    "add": {"init", "fetch_add"},
    "remove": {"fetch_add", "swap_remove"},
    "remove_all": {"clear"},
    "remove_if": {"remove_if"},
}


def writer_skeleton(F, rep, prop):
    """lock side(write_off) -> mutate -> swap_offsets -> lock the other side -> the same mutation ->
    write_off.store(read_off)."""
    n = 0
    for name, muts in MUTATORS.items():
        f = impl_fn(F, W, "AranyaState", name)
        n += 1
        wo = [c for c in f.calls if c.name == "write_off" and c.path and "shm::shared" in c.path]
        so = [c for c in f.calls if c.name == "swap_offsets"]
        sides = [c for c in f.calls if c.name == "side"]
        locks = [c for c in f.calls if c.name == "lock"]
        stores = [o for o in atomics.atomic_ops(f) if o.name == "store" and "write_off" in o.fields]
        ok = len(wo) == 1 and len(so) == 1 and len(sides) == 2 and len(locks) == 2 and len(stores) == 1
        detail = "write_off=%d swap_offsets=%d side=%d lock=%d write_off.store=%d" % (len(wo), len(so), len(sides), len(locks), len(stores))
        if ok:
            first, second = sorted(sides, key=lambda c: (not f.dominates(c.bb, so[0].bb), c.bb))
            ok = f.dominates(wo[0].bb, first.bb) and f.dominates(first.bb, so[0].bb) and f.dominates(so[0].bb, second.bb) and f.dominates(second.bb, stores[0].bb)
            # side offsets: first from write_off(), second from swap_offsets()
            o1 = f.origins(first.args[1], through_calls=PASS_THROUGH)
            o2 = f.origins(second.args[1], through_calls=PASS_THROUGH)
            ok = ok and "call:write_off" in o1 and "call:swap_offsets" in o2
            # swap_offsets is given the write offset
            o3 = f.origins(so[0].args[-1], through_calls=PASS_THROUGH)
            ok = ok and "call:write_off" in o3
            # final store publishes the other side's offset
            o4 = f.origins(stores[0].call.args[1], through_calls=PASS_THROUGH + ("Into::into", "From::from"))
            ok = ok and "call:swap_offsets" in o4 and stores[0].orderings[:1] in (["SeqCst"], ["Release"], ["AcqRel"])
        rep.check(ok, "%s|skeleton" % name, "K1 writer skeleton",
                  "WriteState::%s: side(write_off) -> mutate -> swap_offsets(write_off) -> side(other) -> mutate -> write_off.store(other)" % name,
                  "WriteState::%s no longer follows the two-copy update protocol (%s)" % (name, detail), f.site())
        if not so:
            continue
        # mirrored mutation: the same mutator calls before and after swap_offsets
        def is_mut(c):
            if c.name not in muts:
                return False
            if c.name == "fetch_add":
                return "field:generation" in f.origins(c.args[0], through_calls=("Deref::deref", "DerefMut::deref_mut"))
            return True
        before = sorted(c.name for c in f.calls if is_mut(c) and f.dominates(c.bb, so[0].bb) and c.bb != so[0].bb)
        after = sorted(c.name for c in f.calls if is_mut(c) and f.dominates(so[0].bb, c.bb) and c.bb != so[0].bb)
        rep.check(before == after and set(before) == muts, "%s|mirrored-mutation" % name, "K5 sibling agreement",
                  "both copies receive the same mutation: %s" % before,
                  "WriteState::%s mutates the two copies differently: before swap %s, after swap %s (expected %s on each)" % (name, before, after, sorted(muts)), f.site())
        # each mutation happens under that side's lock (after the lock's success edge)
        for c in [x for x in f.calls if is_mut(x)]:
            # the lock of the *same* copy: taken in the same half of the protocol (before / after swap_offsets),
            # and the mutated object is reached through that guard, never through inner_unsynchronized
            after_swap = f.dominates(so[0].bb, c.bb)
            lk = [l for l in locks if f.dominates(l.bb, c.bb) and f.dominates(so[0].bb, l.bb) == after_swap and l.bb != c.bb]
            og = f.origins(c.args[0], through_calls=PASS_THROUGH + ("Deref::deref", "DerefMut::deref_mut", "BugExt::assume", "Result::ok", "raw_at", "ChanListData::raw_at", "get_mut", "Option::ok_or_else"))
            via_guard = "call:lock" in og and "call:inner_unsynchronized" not in og
            rep.check(bool(lk) and pat.ok_edge(f, lk[-1]) is not None and via_guard, "%s|%s-under-lock" % (name, c.name), "K1 must-pass-through",
                      "%s runs on the guard of the lock taken for the same copy (%s swap_offsets)" % (c.name, "after" if after_swap else "before"),
                      "WriteState::%s: %s on a channel-list copy is not performed through the guard of that copy's lock (taken in the same half of the update): "
                      "a reader holding the lock can observe the bumped generation together with the not-yet-updated list and cache a key for a channel that is being removed" % (name, c.name),
                      c.site())
        uns = [c for c in f.calls if c.name == "inner_unsynchronized"]
        rep.check(not uns, "%s|writer-never-unsynchronized" % name, "K3 who-may-call",
                  "the writer reaches the channel lists only through their locks",
                  "WriteState::%s accesses a channel-list copy through Mutex::inner_unsynchronized (%s)" % (name, ", ".join(c.site() for c in uns)), f.site())
    rep.floor("writer operations", n, 4)


def generation_bumps(F, rep):
    """every removing path bumps `generation` on the side it modified."""
    rm = impl_fn(F, W, "AranyaState", "remove")
    so = [c for c in rm.calls if c.name == "swap_offsets"]
    bumps = [o for o in atomics.atomic_ops(rm) if o.name == "fetch_add" and "generation" in o.fields]
    srs = [c for c in rm.calls if c.name == "swap_remove"]
    ok = len(bumps) == 2 and len(srs) == 2 and len(so) == 1
    if ok:
        for sr in srs:
            same_half = [b for b in bumps if rm.dominates(b.bb, sr.bb) and (rm.dominates(so[0].bb, b.bb) == rm.dominates(so[0].bb, sr.bb))]
            ok = ok and len(same_half) >= 1
        ok = ok and all(b.orderings[:1][0] in atomics.STRONG_REL for b in bumps) and all(b.const_values()[:1] == [1] for b in bumps)
    rep.check(ok, "remove|generation-before-swap_remove", "K1 must-pass-through",
              "each half of remove bumps that side's generation (Release-or-stronger) before swap_remove",
              "WriteState::remove removes a channel from a side without bumping its generation first (readers would keep using cached keys)", rm.site())
    for nm in ("clear", "remove_if"):
        c = [f for f in F.fns if f.name == nm and f.self_adt and f.self_adt.endswith("shm::shared::ChanListData") and not f.trait]
        if len(c) != 1:
            rep.anchor_missing("ChanListData::%s" % nm)
            continue
        f = c[0]
        bumps = [o for o in atomics.atomic_ops(f) if o.name == "fetch_add" and "generation" in o.fields]
        ok = len(bumps) >= 1 and all(b.orderings[:1][0] in atomics.STRONG_REL for b in bumps)
        if ok and nm == "remove_if":
            sr = [x for x in f.calls if x.name in ("swap_remove", "copy_within", "swap")] + [s for s in f.field_stores("len")]
            ok = bool(sr)
        if ok and nm == "clear":
            ls = f.field_stores("len")
            ok = bool(ls)
        rep.check(ok, "ChanListData::%s|bumps-generation" % nm, "K1 must-pass-through",
                  "ChanListData::%s bumps `generation` (Release-or-stronger) when it removes entries" % nm,
                  "ChanListData::%s removes entries without a generation bump" % nm, f.site())


def reader_paths(F, rep, which=("seal", "open")):
    """fast path only on generation equality; slow path under the lock; cache refreshed from the
    locked list on callback success only."""
    out = {}
    for name in which:
        f = impl_fn(F, R, "AfcState", name)
        loads = [o for o in atomics.atomic_ops(f) if o.name == "load" and "generation" in o.fields]
        unsync = [c for c in f.calls if c.name == "inner_unsynchronized"]
        lrl = [c for c in f.calls if c.name == "load_read_list"]
        locks = [c for c in f.calls if c.name == "lock"]
        calls_f = [c for c in f.calls if c.name in ("call_once", "call_mut", "call")]
        cs = [c for c in f.cmp_switches() if ("field:generation" in f.origins(c["a"], through_calls=()) or "field:generation" in f.origins(c["b"], through_calls=()))]
        ok = len(lrl) == 1 and len(locks) == 1 and len(calls_f) == 2 and len(cs) == 1 and len(unsync) >= 1
        fast = slow = None
        if ok:
            c = cs[0]
            fast = [x for x in calls_f if f.dominates(c["eq"], x.bb)]
            slow = [x for x in calls_f if f.dominates(c["ne"], x.bb)]
            # the compared generation is an Acquire load through the unsynchronised view of the current read list
            gl = [o for o in loads if o.orderings[:1][0] in atomics.STRONG_ACQ and f.dominates(o.bb, c["bb"])]
            ok = len(fast) == 1 and len(slow) == 1 and len(gl) == 1
            if ok:
                org = f.origins(gl[0].call.args[0], through_calls="*")
                ok = "call:inner_unsynchronized" in org and "call:load_read_list" in org
                sides = f.origins(c["a"], through_calls="*") | f.origins(c["b"], through_calls="*")
                ok = ok and "argname:ctx" in sides or "field:generation" in sides
        rep.check(bool(ok), "%s|fast-path-guard" % name, "K2 guarded-by",
                  "the cached key is used only on the `cache.generation == read_list.generation.load(Acquire)` edge; the other edge takes the lock",
                  "ReadState::%s uses the cached key without the generation test on the current read side" % name, f.site())
        if not ok:
            continue
        lk = locks[0]
        lke = pat.ok_edge(f, lk)
        finds = [x for x in f.calls if x.name in ("find", "find_mut")]
        ok2 = lke is not None and len(finds) == 1 and f.dominates(lke[1], finds[0].bb) and f.dominates(cs[0]["ne"], lk.bb)
        guard_locals = set()
        if ok2:
            # receiver of find derives from the guard
            go = f.origins(finds[0].args[0], through_calls=PASS_THROUGH + ("Deref::deref", "DerefMut::deref_mut"))
            ok2 = "call:lock" in go
            foe = f.outcome_edges(finds[0])
            some = foe.get("Some")
            # after `?`: Option switch on payload
            if some is None:
                for s in f.stmts():
                    if s.rv_kind() == "discr" and s.rv[2] and s.rv[2].endswith("option::Option") and f.dominates(finds[0].bb, s.bb):
                        for b in range(f.nblocks):
                            sw = f.switch_on(b)
                            if sw and sw[0].place is not None and sw[0].place.local == s.place.local:
                                some = (b, sw[1].get(1, sw[2]))
                                none = (b, sw[1].get(0, sw[2]))
                                break
                        if some:
                            break
            else:
                none = foe.get("None")
            ok2 = ok2 and some is not None and f.dominates(some[1], slow[0].bb)
            nf = [s for s in f.stmts() if s.rv_kind() == "agg" and s.rv[1].get("variant") == "NotFound"]
            ok2 = ok2 and any(s.bb in f.reachable(none[1], cut_blocks={some[1]}) for s in nf)
        rep.check(bool(ok2), "%s|slow-path-under-lock" % name, "K2 guarded-by",
                  "on a generation mismatch the channel is looked up through the locked read list; a miss returns NotFound and the callback runs only on a hit",
                  "ReadState::%s's slow path does not look the channel up under the list lock before running the callback" % name, f.site())
        # guard alive across callback and cache refresh: no drop of the guard dominates them
        gl_local = None
        for s in f.stmts():
            if s.place is not None and not s.place.proj and "MutexGuard" in f.local_ty(s.place.local) and f.local_name(s.place.local):
                gl_local = s.place.local
        if gl_local is None:
            for i, l in enumerate(f.locals):
                if "MutexGuard" in l["ty"] and l.get("name"):
                    gl_local = i
        drops = [b for b in range(f.nblocks) if not f.is_cleanup(b) and f.term(b)[0] == "drop" and Place(f.term(b)[1]).local == gl_local and not Place(f.term(b)[1]).proj]
        cache_stores = [s for s in f.stmts() if s.place is not None and s.place.proj and s.place.last_field() in ("generation", "idx", "key") and "field:generation" not in () and f.dominates(cs[0]["ne"], s.bb)
                        and s.place.proj[-1][0] == "f"]
        early = [d for d in drops if f.dominates(d, slow[0].bb) or any(f.dominates(d, s.bb) for s in cache_stores)]
        rep.check(gl_local is not None and bool(drops) and not early, "%s|lock-held-over-callback-and-refresh" % name, "K1 must-pass-through",
                  "the list guard is dropped only after the callback ran and the cache was refreshed",
                  "ReadState::%s releases the list lock before the callback / cache refresh: a removal completing in between is missed (stale key cached under the new generation)" % name, f.site())
        # refresh on success only, generation value loaded from the locked list
        isok = [x for x in f.calls if x.is_("Result::is_ok") and f.dominates(slow[0].bb, x.bb)]
        ok3 = len(isok) == 1 and bool(cache_stores)
        if ok3:
            oe = f.outcome_edges(isok[0])
            ok3 = "true" in oe and all(f.dominates(oe["true"][1], s.bb) for s in cache_stores)
            gens = [s for s in cache_stores if s.place.last_field() == "generation"]
            for s in gens:
                o = Operand(s.rv[1]) if s.rv_kind() == "use" else None
                org = f.origins(o, through_calls=PASS_THROUGH + ("Deref::deref", "DerefMut::deref_mut", "load")) if o is not None and o.place is not None else set()
                ok3 = ok3 and "call:load" in org and "call:lock" in org and "call:inner_unsynchronized" not in org
            ok3 = ok3 and len(gens) == 1
        # ... and together: on the success edge every path to the return stores all three fields. Marking the cache
        # fresh (generation) while keeping the old key loses the key that was just advanced by the callback.
        if ok3:
            oe = f.outcome_edges(isok[0])
            missing = []
            for fld in ("generation", "idx", "key"):
                bs = {s.bb for s in cache_stores if s.place.last_field() == fld}
                r = f.reachable(oe["true"][1], cut_blocks=bs)
                if not bs or (r & set(f.returns())):
                    missing.append(fld)
            rep.check(not missing, "%s|cache-refresh-complete" % name, "K1 must-pass-through",
                      "after a successful slow-path %s every path stores cache.generation, cache.idx and cache.key" % name,
                      "ReadState::%s can mark its cache fresh without storing cache.%s on some successful path: the key advanced by the callback (its sequence number) is dropped "
                      "and the next %s from the cache reuses it" % (name, "/".join(missing), name), f.site())
        rep.check(bool(ok3), "%s|cache-refresh" % name, "K2 guarded-by",
                  "cache.{idx, generation, key} are replaced only on the callback's is_ok edge; the new generation is read from the locked list",
                  "ReadState::%s refreshes its cache on failure, or tags it with a generation not read under the lock" % name, f.site())
        out[name] = f
    return out
