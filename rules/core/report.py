"""Report: collects rule instances, violations; writes evidence; handles known findings."""
import json
import os
import sys
import time

VERIF = os.path.dirname(os.path.dirname(os.path.dirname(os.path.abspath(__file__))))
KNOWN = os.path.join(VERIF, "known_findings.json")
OUT = os.environ.get("VERIF_OUT", os.path.join(VERIF, "evidence"))

TRUSTED_BASE = [
    "rustc nightly 1.97 type checking and MIR construction (mir-opt-level=0, dev profile)",
    "the fact extractor /verif/driver and the rule engine /verif/rules",
    "external crates are not descended into (postcard, serde, heapless, spideroak-crypto, pest, rkyv, ciborium, buggy, core/alloc/std)",
    "feature configurations listed in rules/core/extract.py; code under other cfgs is not analysed",
]


class Report:
    def __init__(self, pid, tier="quick"):
        self.pid = pid
        self.tier = tier
        self.t0 = time.time()
        self.instances = []   # dicts: rule, instance, site, verdict
        self.violations = []  # dicts: key, rule, msg, site
        self.notes = []
        self.stats = {}
        self.explanation = ""
        self.not_decided = ""
        self.configs = []
        self.prefix = ""      # set while re-running the rules on a further feature configuration
        self.extra_assumptions = []

    # a rule instance that held
    def ok(self, rule, instance, site=None, detail=None):
        instance = self.prefix + instance
        d = {"rule": rule, "instance": instance, "verdict": "holds"}
        if site:
            d["site"] = site
        if detail:
            d["detail"] = detail
        self.instances.append(d)

    def violation(self, key, rule, msg, site=None):
        """key: stable, no line numbers."""
        key = self.prefix + key
        full = "%s|%s|%s" % (self.pid, rule, key)
        d = {"key": full, "rule": rule, "msg": msg, "verdict": "VIOLATED"}
        if site:
            d["site"] = site
        self.instances.append({"rule": rule, "instance": key, "verdict": "VIOLATED", "site": site, "detail": msg})
        self.violations.append(d)

    def check(self, cond, key, rule, msg_ok, msg_bad=None, site=None):
        if cond:
            self.ok(rule, key, site, msg_ok)
        else:
            self.violation(key, rule, msg_bad or ("expected: " + msg_ok), site)
        return cond

    def anchor_missing(self, what):
        self.violation("anchor-missing:" + what, "anchor", "anchor or floor missing (fail closed): %s. "
                       "If this is a rename, update the rule table in rules/props/%s.py" % (what, self.pid))

    def floor(self, name, count, floor):
        if count < floor:
            self.violation("floor:%s" % name, "floor", "rule instance count for %s fell to %d (< floor %d confirmed by hand)" % (name, count, floor))
        else:
            self.ok("floor", "%s: %d instances (floor %d)" % (name, count, floor))

    def note(self, s):
        self.notes.append(s)

    def finish(self, F=None):
        known = {"findings": [], "fixed": []}
        if os.path.exists(KNOWN):
            with open(KNOWN) as fh:
                known = json.load(fh)
        known_keys = {k["key"]: k for k in known.get("findings", []) if k.get("property") == self.pid}
        unlisted = []
        listed = []
        for v in self.violations:
            if v["key"] in known_keys:
                listed.append(v)
            else:
                unlisted.append(v)
        rdir = os.path.join(OUT, "replay")
        os.makedirs(rdir, exist_ok=True)
        for v in listed:
            print("KNOWN-FINDING: property=%s %s (%s)" % (self.pid, known_keys[v["key"]].get("what", v["msg"]), v["key"]))
        for v in unlisted:
            safe = "".join(c if c.isalnum() or c in "-_." else "_" for c in v["key"])[:150]
            rp = os.path.join(rdir, "%s.json" % safe)
            with open(rp, "w") as fh:
                json.dump(v, fh, indent=1)
            print("VIOLATION property=%s replay=%s" % (self.pid, rp))
            print("  rule=%s" % v["rule"])
            print("  key=%s" % v["key"])
            if v.get("site"):
                print("  site=%s" % v["site"])
            print("  %s" % v["msg"])
        held = [i for i in self.instances if i["verdict"] == "holds"]
        distinct = len({(i["rule"], i["instance"]) for i in self.instances if i["rule"] not in ("floor", "anchor")})
        samples = self.instances[:12] + ([i for i in self.instances if i["verdict"] != "holds"][:8])
        cov = {
            "explanation": self.explanation + (" NOT DECIDED: " + self.not_decided if self.not_decided else ""),
            "obligations": len(self.instances),
            "discharged": len(held),
            "evaluations": len(self.instances),
            "distinct_nontrivial": distinct,
            "rule": "one evaluation per rule instance (a call site, edge, field, table row or function) found in the current source; "
                    "distinct_nontrivial counts distinct (rule, instance) pairs excluding floor/anchor bookkeeping",
            "samples": samples,
            "checker_cmd": "./check %s --tier %s" % (self.pid, self.tier),
            "trusted_base": TRUSTED_BASE,
            "exhaustive": True,
            "known_findings_matched": [v["key"] for v in listed],
            "notes": self.notes,
            "stats": self.stats,
            "configs": self.configs,
        }
        if F is not None:
            cov["tree_hash"] = F.tree
            cov["fact_files"] = F.files
            cov["functions_loaded"] = len(F.fns)
            cov["call_sites_loaded"] = sum(len(f.calls) for f in F.fns) if len(F.fns) < 20000 else -1
        ev = {
            "property_id": self.pid,
            "tier": self.tier,
            "seed": int(os.environ.get("VERIF_SEED", "0") or 0),
            "level": "other",
            "coverage": cov,
            "assumptions": TRUSTED_BASE + self.extra_assumptions,
            "wall_s": round(time.time() - self.t0, 3),
            "violations": len(unlisted),
        }
        os.makedirs(OUT, exist_ok=True)
        with open(os.path.join(OUT, "%s.json" % self.pid), "w") as fh:
            json.dump(ev, fh, indent=1)
        print("%s: %d rule instances, %d held, %d known findings, %d violations (%.1fs)" % (
            self.pid, len(self.instances), len(held), len(listed), len(unlisted), time.time() - self.t0))
        return 1 if unlisted else 0
