"""Fact extraction: runs the rustc_private driver over /repo's working tree.

Facts are cached by a hash of the source inputs, so every check re-reads the
current tree (a changed tree has a different hash and is re-extracted)."""
import fcntl
import hashlib
import json
import os
import shutil
import subprocess
import sys
import time

VERIF = os.path.dirname(os.path.dirname(os.path.dirname(os.path.abspath(__file__))))
REPO = os.environ.get("VERIF_REPO", "/repo")
CACHE = os.environ.get("VERIF_CACHE", os.path.join(VERIF, ".cache"))
DRIVER = os.path.join(VERIF, "driver", "target", "debug", "verif-driver")

# Feature configurations (a static tool sees only what was parsed).
CONFIGS = {
    "main": {
        "packages": [
            "aranya-runtime", "aranya-fast-channels", "aranya-crypto", "aranya-crypto-ffi",
            "aranya-envelope-ffi", "aranya-afc-util", "aranya-policy-text",
            "aranya-policy-text-macro", "aranya-policy-ast", "aranya-policy-lang",
            "aranya-policy-module", "aranya-policy-compiler", "aranya-policy-vm",
            "aranya-id", "aranya-capi-core", "aranya-libc", "aranya-policy-runner",
        ],
        "features": [
            "aranya-runtime/libc", "aranya-runtime/std", "aranya-runtime/testing",
            "aranya-fast-channels/posix", "aranya-fast-channels/libc",
            "aranya-fast-channels/memory", "aranya-fast-channels/std",
            "aranya-crypto/afc", "aranya-crypto/apq", "aranya-crypto/tls",
            "aranya-crypto/fs-keystore", "aranya-crypto/memstore", "aranya-crypto/std",
            "aranya-policy-vm/std", "aranya-capi-core/std",
        ],
    },
    # aranya-runtime's small-device constants (COMMAND_RESPONSE_MAX = 5, MAX_COMMAND_LENGTH = 400, ...):
    # the sync and storage rules must hold for these bounds too (thorough tier)
    "lowmem": {
        "packages": ["aranya-runtime"],
        "features": ["aranya-runtime/libc", "aranya-runtime/std", "aranya-runtime/testing", "aranya-runtime/low-mem-usage"],
    },
    "cas": {
        "packages": ["aranya-fast-channels"],
        "features": [
            "aranya-fast-channels/posix", "aranya-fast-channels/libc",
            "aranya-fast-channels/memory", "aranya-fast-channels/std",
            "aranya-fast-channels/cas_mutex",
        ],
    },
}

SRC_EXT = (".rs", ".toml", ".lock", ".pest", ".md", ".policy")


def tree_hash(repo=REPO):
    h = hashlib.sha256()
    roots = ["crates", "canaries"]
    files = []
    for r in roots:
        base = os.path.join(repo, r)
        for dp, dn, fn in os.walk(base):
            dn[:] = [d for d in dn if d not in ("target", ".git")]
            for f in fn:
                if f.endswith(SRC_EXT):
                    files.append(os.path.join(dp, f))
    for f in ("Cargo.toml", "Cargo.lock", "rust-toolchain.toml"):
        p = os.path.join(repo, f)
        if os.path.exists(p):
            files.append(p)
    files.sort()
    for f in files:
        h.update(os.path.relpath(f, repo).encode())
        h.update(b"\0")
        with open(f, "rb") as fh:
            h.update(hashlib.sha256(fh.read()).digest())
    # the driver itself is an input
    try:
        with open(os.path.join(VERIF, "driver", "src", "main.rs"), "rb") as fh:
            h.update(hashlib.sha256(fh.read()).digest())
    except OSError:
        pass
    return h.hexdigest()[:24]


def sysroot():
    return subprocess.check_output(["rustc", "+nightly", "--print", "sysroot"], text=True).strip()


def build_driver():
    if os.path.exists(DRIVER):
        src = os.path.join(VERIF, "driver", "src", "main.rs")
        if os.path.getmtime(DRIVER) >= os.path.getmtime(src):
            return
    env = dict(os.environ, CARGO_NET_OFFLINE="true")
    subprocess.check_call(["cargo", "build", "--offline"], cwd=os.path.join(VERIF, "driver"), env=env)


def facts_dir(config="main", repo=REPO):
    """Return the directory with fact files for the current tree, extracting on a miss."""
    os.makedirs(CACHE, exist_ok=True)
    th = tree_hash(repo)
    out = os.path.join(CACHE, "facts", th, config)
    done = os.path.join(out, ".done")
    if os.path.exists(done):
        return out, th, False
    lock = open(os.path.join(CACHE, "extract.%s.lock" % config), "w")
    fcntl.flock(lock, fcntl.LOCK_EX)
    try:
        if os.path.exists(done):
            return out, th, False
        build_driver()
        if os.path.exists(out):
            shutil.rmtree(out)
        os.makedirs(out)
        target = os.path.join(CACHE, "target", config)
        os.makedirs(target, exist_ok=True)
        # cargo's freshness cache would skip the wrapper: drop workspace fingerprints
        fp = os.path.join(target, "debug", ".fingerprint")
        if os.path.isdir(fp):
            for d in os.listdir(fp):
                if d.startswith(("aranya-", "policy-", "parser-", "canary-")):
                    shutil.rmtree(os.path.join(fp, d), ignore_errors=True)
        cfg = CONFIGS[config]
        cmd = ["cargo", "+nightly", "check", "--offline"]
        for p in cfg["packages"]:
            cmd += ["-p", p]
        feats = cfg["features"]
        if len(cfg["packages"]) == 1:
            # with a single -p, `pkg/feat` is taken as a dependency feature: use bare names
            feats = [f.split("/", 1)[1] if f.startswith(cfg["packages"][0] + "/") else f for f in feats]
        cmd += ["--features", ",".join(feats)]
        env = dict(os.environ)
        env.update({
            "LD_LIBRARY_PATH": sysroot() + "/lib",
            "RUSTFLAGS": "-Zmir-opt-level=0 -Awarnings",
            "RUSTC_WORKSPACE_WRAPPER": DRIVER,
            "VERIF_FACTS_DIR": out,
            "VERIF_CONFIG": config,
            "CARGO_TARGET_DIR": target,
            "CARGO_NET_OFFLINE": "true",
        })
        env.pop("RUSTC_WRAPPER", None)
        t0 = time.time()
        r = subprocess.run(cmd, cwd=repo, env=env, stdout=subprocess.PIPE, stderr=subprocess.STDOUT, text=True)
        if r.returncode != 0:
            sys.stderr.write(r.stdout[-6000:])
            raise SystemExit("EXTRACTION FAILED (config %s): /repo does not build under the fact extractor" % config)
        n = len([f for f in os.listdir(out) if f.endswith(".json")])
        if n == 0:
            raise SystemExit("EXTRACTION FAILED: no fact files written")
        with open(done, "w") as fh:
            json.dump({"wall_s": time.time() - t0, "files": n, "tree": th}, fh)
        # prune old fact sets (keep 6 newest)
        root = os.path.join(CACHE, "facts")
        ds = sorted((os.path.getmtime(os.path.join(root, d)), d) for d in os.listdir(root))
        for _, d in ds[:-6]:
            shutil.rmtree(os.path.join(root, d), ignore_errors=True)
        return out, th, True
    finally:
        fcntl.flock(lock, fcntl.LOCK_UN)
        lock.close()


if __name__ == "__main__":
    cfg = sys.argv[1] if len(sys.argv) > 1 else "main"
    d, th, fresh = facts_dir(cfg)
    print(d, th, "extracted" if fresh else "cached")
