"""Shared K1/K2 pattern helpers over Fn CFGs."""
from .facts import Operand, path_match

OKS = ("Ok", "Continue", "Some", "true")
ERRS = ("Err", "Break", "None", "false")


def ok_edge(f, call):
    oe = f.outcome_edges(call)
    for k in ("Ok", "Continue"):
        if k in oe:
            return oe[k]
    return None


def err_edge(f, call):
    oe = f.outcome_edges(call)
    for k in ("Err", "Break"):
        if k in oe:
            return oe[k]
    return None


def trait_calls(f, trait_suffix, name):
    return [c for c in f.calls if c.name == name and ((c.trait and path_match(c.trait, trait_suffix)) or (c.path and path_match(c.path, trait_suffix + "::" + name)))]


def calls_named(f, *names):
    return [c for c in f.calls if c.name in names]


def one(rep, lst, what, f):
    if len(lst) != 1:
        rep.anchor_missing("%s: expected exactly one %s, found %d" % (f.path, what, len(lst)))
        return None
    return lst[0]


def reach(f, bb, cut_blocks=()):
    return f.reachable(bb, cut_blocks=set(cut_blocks))


def unreachable_from(f, start_bb, calls):
    r = f.reachable(start_bb)
    return [c for c in calls if c.bb in r]


def must_pass(f, start_bb, through_bbs, exits=None):
    """True iff every path from start_bb to an exit (default: returns) passes a through block."""
    through = set(through_bbs)
    if start_bb in through:
        return True
    r = f.reachable(start_bb, cut_blocks=through)
    exits = set(exits) if exits is not None else set(f.returns())
    return not (r & exits)


def only_via_edge(f, edge, targets):
    """True iff no target block is reachable from entry once `edge` (sw_bb, tgt) is cut."""
    r = f.reachable(0, cut_edges={edge})
    return not (set(targets) & r)


def dominated_by_edge(f, edge, bb):
    """bb reachable only through the edge (sw, tgt)."""
    return only_via_edge(f, edge, [bb]) and bb in f.reachable(edge[1])


def ok_returns(f):
    return [s for s in f.stmts() if s.rv_kind() == "agg" and s.rv[1].get("variant") == "Ok" and s.place is not None
            and s.place.local == 0 and not s.place.proj]


def err_aggs(f, variant):
    return [s for s in f.stmts() if s.rv_kind() == "agg" and s.rv[1].get("variant") == variant]


def field_of_self_read(f, field):
    """Statements/calls reading a place with `.field` somewhere in the projection."""
    out = []
    for s in f.stmts():
        for p in s.src_places():
            if field in p.fields():
                out.append(s)
                break
    return out
