"""Rule instances shared by several runtime properties (C01, C04, C05, C09, C19)."""
from . import pat
from .facts import Operand, Place, PASS_THROUGH

TX = "aranya_runtime::client::transaction::"
SH = "aranya_runtime::client::braiding::strand_heap::"


def rule_fold_siblings(F, rep):
    """collapse_heads and synthetic_head fold through fold_merge_pairs and derive every merge with
    MergeIds::new + Policy::merge; MergeIds::new orders by id."""
    ch = F.fn(TX + "collapse_heads")
    sh = F.fn(TX + "synthetic_head")
    for f in (ch, sh):
        folds = [c for c in f.calls if c.is_(TX + "fold_merge_pairs")]
        ok = len(folds) == 1
        cl_ok = False
        if ok:
            cls = f.closures_in_args(folds[0], F)
            for cl in cls:
                mi = [c for c in cl.calls if c.is_("MergeIds::new")]
                mg = pat.trait_calls(cl, "policy::Policy", "merge")
                if mi and mg:
                    # merge gets the MergeIds built from (left, right) addresses of the two folded entries
                    src = [x for k, x in cl.backward_sources(mg[0].args[2].place.local, through_calls=PASS_THROUGH + ("Option::ok_or", "Option::ok_or_else"))[1] if k == "call"]
                    cl_ok = any(x is mi[0] for x in src) and "arg:2" in cl.origins(mi[0].args[0]) and "arg:3" in cl.origins(mi[0].args[1])
            # the iteration source is the head set in its stored (sorted) order
            it = folds[0].args[0]
            o = f.origins(it, through_calls="*")
            ok = "call:iter" in o or "call:collect" in o or "call:map" in o
        rep.check(ok and cl_ok, "%s|folds-through-shared-pairing" % f.name, "K5 sibling agreement",
                  "%s folds the head set (in HeadSet order) through fold_merge_pairs; each step = MergeIds::new(left, right) -> Policy::merge" % f.name,
                  "%s does not pair heads through the shared fold / MergeIds::new + Policy::merge: peers would derive different merges" % f.name, f.site())
        # no other iteration order manipulation
        bad = [c for c in f.calls if c.name in ("rev", "sort", "sort_by", "sort_unstable", "reverse", "pop", "swap_remove")]
        rep.check(not bad, "%s|no-reordering" % f.name, "K5 sibling agreement", "%s does not reorder the head set before folding" % f.name,
                  "%s reorders heads (%s) before folding" % (f.name, [c.name for c in bad]), f.site())
    fm = F.fn(TX + "fold_merge_pairs")
    pops = [c for c in fm.calls if c.name == "pop_front"]
    pushes = [c for c in fm.calls if c.name == "push_back"]
    others = [c for c in fm.calls if c.name in ("pop_back", "push_front", "pop", "remove", "swap")]
    rep.check(len(pops) == 2 and len(pushes) == 1 and not others, "fold_merge_pairs|fifo", "K5 sibling agreement",
              "fold_merge_pairs pops two from the front and pushes the combination on the back (the single pairing order)", site=fm.site())
    mn = F.fn("aranya_runtime::policy::MergeIds::new")
    cm = [c for c in mn.calls if c.is_("Ord::cmp")]
    ok = False
    if len(cm) == 1:
        ok = "field:id" in mn.origins(cm[0].args[0], through_calls=()) and "field:id" in mn.origins(cm[0].args[1], through_calls=())
        sw = mn.discr_switches("cmp::Ordering")
        if ok and sw:
            b, arms, other, st = sw[0]
            aggs = [s for s in mn.stmts() if s.rv_kind() == "agg" and s.rv[1].get("adt", "").endswith("policy::MergeIds")]
            good = 0
            for s in aggs:
                flds = s.rv[1]["fields"]
                l, r = s.operands()[flds.index("left")], s.operands()[flds.index("right")]
                lo, ro = mn.origins(l, through_calls=()), mn.origins(r, through_calls=())
                in_less = "Less" in arms and s.bb in mn.dominated_region(arms["Less"])
                in_gt = "Greater" in arms and s.bb in mn.dominated_region(arms["Greater"])
                if in_less and "arg:1" in lo and "arg:2" in ro:
                    good += 1
                if in_gt and "arg:2" in lo and "arg:1" in ro:
                    good += 1
            nones = [s for s in mn.stmts() if s.rv_kind() == "agg" and s.rv[1].get("variant") == "None" and "Equal" in arms and s.bb in mn.dominated_region(arms["Equal"])]
            ok = good == 2 and len(aggs) == 2 and bool(nones)
    rep.check(ok, "MergeIds::new|ordered-by-id", "K2 polarity",
              "MergeIds::new compares a.id with b.id: Less -> (a, b), Greater -> (b, a), Equal -> None",
              "MergeIds::new does not order the pair by command id", mn.site())


def rule_vm_merge(F, rep):
    g = [x for x in F.fns if x.name == "merge" and x.trait and x.trait.endswith("policy::Policy") and x.self_adt and x.self_adt.endswith("vm_policy::VmPolicy")]
    g = pat.one(rep, g, "VmPolicy::merge", F.fns[0])
    if not g:
        return
    mc = [c for c in g.calls if c.name == "merge_cmd_id"]
    ok = False
    if len(mc) == 1:
        a, b = g.origins(mc[0].args[0]), g.origins(mc[0].args[1])
        ok = "call:into" in a and "call:into" in b and "field:id" in a and "field:id" in b
        # ... and the two arguments are the two *different* members of the pair, in order
        ok = ok and "field:0" in a and "field:1" not in a and "field:1" in b and "field:0" not in b
        ag = [s for s in g.stmts() if s.rv_kind() == "agg" and s.rv[1].get("adt", "").endswith("protocol::VmProtocol")]
        if ok and ag:
            flds = ag[0].rv[1]["fields"]
            ido = g.origins(ag[0].operands()[flds.index("id")], through_calls=())
            ok = "call:merge_cmd_id" in ido
    rep.check(ok, "VmPolicy::merge|id-from-ordered-parents", "K6 provenance",
              "the merge command id is merge_cmd_id(left.id, right.id) with (left, right) the first and second member of the ordered MergeIds",
              "VmPolicy::merge does not derive the merge id from both parents in order (merge_cmd_id's arguments must be the .0 and the .1 member's id of the ordered pair): "
              "two different head sets can then advertise the same hello head", site=g.site())


def rule_strand_order(F, rep):
    adt = F.adt(SH + "Strand")
    flds = {x["name"]: x["ty"] for x in adt["variants"][0]["fields"]}
    kt = flds.get("key", "")
    rep.check("Priority" in kt and "Id<" in kt and "Location" not in kt and "SegmentIndex" not in kt, "Strand|key-type", "K10 type fact",
              "Strand.key: %s (priority, global command id; no peer-local location)" % kt[:120],
              "Strand.key has type %s: the braid order must depend only on (Priority, CmdId)" % kt)
    n = 0
    for name, tr in (("cmp", "cmp::Ord"), ("eq", "cmp::PartialEq"), ("partial_cmp", "cmp::PartialOrd")):
        fs = [f for f in F.fns if f.name == name and f.trait and f.trait.endswith(tr) and f.self_adt and f.self_adt.endswith("strand_heap::Strand")]
        if len(fs) != 1:
            rep.anchor_missing("impl %s for Strand" % tr)
            continue
        f = fs[0]
        n += 1
        read = set()
        for body in [f] + F.closures_of(f):
            for s in body.stmts():
                for p in s.src_places():
                    read |= {x for x in p.fields() if not x.isdigit()}
        if name == "partial_cmp":
            ok = any(c.is_("Ord::cmp") and "strand_heap" in (c.res or c.path or "") or c.name == "cmp" for c in f.calls) and not (read - {"key"})
        else:
            ok = "key" in read and not (read & {"next", "segment"})
        rep.check(ok, "Strand::%s|reads-only-key" % name, "K6 provenance", "Strand::%s reads only self.key / other.key (fields read: %s)" % (name, sorted(read)),
                  "Strand::%s reads %s: the ordering would depend on peer-local data" % (name, sorted(read - {"key"})), f.site())
        if name == "cmp":
            rv = [c for c in f.calls if c.is_("Ordering::reverse")]
            cm = [c for c in f.calls if c.name == "cmp" and c is not None and not c.is_("Ordering::reverse")]
            rep.check(len(rv) == 1 and len(cm) == 1, "Strand::cmp|reversed-key-compare", "K2 polarity",
                      "Strand::cmp = key.cmp(other.key).reverse() (max-heap pops the smallest key last..first consistently)", site=f.site())
    new = F.fn(SH + "Strand::new")
    ag = [s for s in new.stmts() if s.rv_kind() == "agg" and s.rv[1].get("adt", "").endswith("strand_heap::Strand")]
    ok = False
    if len(ag) == 1:
        fl = ag[0].rv[1]["fields"]
        ko = new.origins(ag[0].operands()[fl.index("key")], through_calls=("Try::branch",))
        no = new.origins(ag[0].operands()[fl.index("next")], through_calls=())
        ok = "call:priority" in ko and "call:id" in ko and "argname:location" in no and "argname:location" not in ko
        # the command is the one at `location`
        gc = [c for c in new.calls if c.name == "get_command"]
        ok = ok and bool(gc) and "argname:location" in new.origins(gc[0].args[1], through_calls=())
    rep.check(ok, "Strand::new|key-provenance", "K6 provenance",
              "Strand::new builds key from (cmd.priority(), cmd.id()) of the command at `location`; `location` flows only into `next`", site=new.site())


def rule_headset(F, rep):
    """HeadSet writers and sorted insert; LocatedAddress ordering (also C09)."""
    writers = set()
    for f in F.fns:
        if f.derived:
            continue
        for s in f.stmts():
            if s.rv_kind() == "agg" and s.rv[1].get("adt", "").endswith("head_set::HeadSet"):
                writers.add(f.path)
            if s.rv_kind() == "ref" and s.rv[1] == "mut":
                p = Place(s.rv[2])
                if "heads" in p.fields() and "HeadSet" in f.local_ty(p.local) and "Transaction" not in f.local_ty(p.local):
                    writers.add(f.path)
    allowed = {"aranya_runtime::storage::head_set::HeadSet::single", "aranya_runtime::storage::head_set::HeadSet::push"}
    rep.check(writers <= allowed and allowed <= writers, "HeadSet|writers", "K3 who-may-write",
              "HeadSet.heads is constructed/mutated only in HeadSet::single and HeadSet::push",
              "HeadSet.heads is written outside single/push: %s" % sorted(writers - allowed))
    push = F.fn("aranya_runtime::storage::head_set::HeadSet::push")
    bs = [c for c in push.calls if c.name == "binary_search"]
    insc = [c for c in push.calls if c.name == "insert"]
    ok = False
    if len(bs) == 1 and len(insc) == 1:
        oe = push.outcome_edges(bs[0])
        idx_src = push.backward_sources(insc[0].args[1].place.local, through_calls=())[0]
        ok = "Err" in oe and push.dominates(oe["Err"][1], insc[0].bb) and bs[0].dest.local in idx_src \
            and push.derives_from_field(bs[0].args[0], "heads") and push.derives_from_field(insc[0].args[0], "heads")
        ok = ok and not [c for c in push.calls if c.name in ("push", "extend", "append", "push_back")]
    rep.check(ok, "HeadSet::push|sorted-insert", "K6 provenance",
              "push inserts at the Err(index) of binary_search(&head) on self.heads and nowhere else",
              "HeadSet::push does not keep the vector sorted/deduplicated", push.site())
    la = F.adt("aranya_runtime::storage::LocatedAddress")
    fields = [x["name"] for x in la["variants"][0]["fields"]]
    ords = [i for i in F.impls_of("storage::LocatedAddress", "cmp::Ord") if i["derived"]]
    rep.check(fields[:1] == ["id"] and bool(ords), "LocatedAddress|ord-by-id-first", "K10 type fact",
              "LocatedAddress derives Ord with the global `id` first: %s" % fields,
              "LocatedAddress ordering is not derived/id-first (fields %s)" % fields)


def _direct_sources(f, local, depth=0, seen=None):
    """What a returned Option/Result *is* (not what it was computed from): follows whole-value moves, the field of
    an Ok(..) wrapper and error-only adapters (map_err / into / from); stops at aggregates of Option (None / Some)
    and at calls. Returns [('none'|'some', Stmt) | ('call', Call) | ('other', site)]."""
    seen = seen if seen is not None else set()
    if local in seen or depth > 12:
        return []
    seen.add(local)
    out = []
    for kind, site in f.defs().get(local, []):
        if kind == "stmt":
            if site.place.proj:
                continue   # partial write (field init); the whole-value definition is elsewhere
            k = site.rv_kind()
            if k == "use":
                o = site.operands()[0]
                if o.place is not None and not o.place.proj:
                    out += _direct_sources(f, o.place.local, depth + 1, seen)
                else:
                    out.append(("other", site))
            elif k == "agg":
                v = site.rv[1].get("variant")
                if v in ("Ok",) and site.operands() and site.operands()[0].place is not None and not site.operands()[0].place.proj:
                    out += _direct_sources(f, site.operands()[0].place.local, depth + 1, seen)
                elif v == "None":
                    out.append(("none", site))
                elif v == "Some":
                    out.append(("some", site))
                else:
                    out.append(("other", site))
            else:
                out.append(("other", site))
        else:
            if site.is_("result::Result::map_err", "convert::Into::into", "convert::From::from") and site.args and site.args[0].place is not None \
                    and not site.args[0].place.proj:
                out += _direct_sources(f, site.args[0].place.local, depth + 1, seen)
            else:
                out.append(("call", site))
    return out


def rule_locate(F, rep):
    """Transaction::locate says 'not present' only after searching the committed graph *and* every tip of the
    transaction: a command that is in the graph but reported absent is ingested a second time (duplicate
    application, spurious extra head). An exit can say 'absent' by returning a None it builds, or by returning
    the result of one of the two searches as it is; in both cases the *other* search must have come back empty."""
    f = F.fn(TX + "Transaction::locate")
    gl = [c for c in f.calls if c.trait and c.trait.endswith("storage::Storage") and c.name == "get_location"]
    gf = [c for c in f.calls if c.trait and c.trait.endswith("storage::Storage") and c.name == "get_location_from"]
    nx = [c for c in f.calls if c.is_("Iterator::next") and "field:heads" in f.origins(c.args[0], through_calls="*")]
    ok = len(gl) == 1 and len(gf) >= 1 and len(nx) == 1
    why = ""
    if ok:
        oe = f.outcome_edges(gl[0])
        on = f.outcome_edges(nx[0])
        exits = []
        for kind, site in _direct_sources(f, 0):
            if kind == "none" or (kind == "call" and (site in gl or site in gf)):
                exits.append((kind, site))
        ok = bool(exits) and "None" in on
        for kind, site in exits:
            if not ok:
                break
            if site in gf:
                ok = False   # a tip search returned as the answer cannot have covered the remaining tips
                continue
            if site not in gl:
                ok = ok and "None" in oe and f.dominates(oe["None"][1], site.bb)
            ok = ok and f.dominates(on["None"][1], site.bb)
        ok = ok and "argname:address" in f.origins(gl[0].args[1], through_calls=()) and all("argname:address" in f.origins(c.args[2], through_calls=()) for c in gf)
    rep.check(ok, "locate|absent-only-after-both-searches", "K2 guarded-by",
              "Transaction::locate returns Ok(None) only where storage.get_location(address) found nothing and the loop over self.heads ran to exhaustion",
              "Transaction::locate can report a command absent without having searched both the committed graph (Storage::get_location) and every transaction tip "
              "(get_location_from over self.heads): tips are dropped from self.heads while their child sits in the unwritten perspective, so a committed command "
              "can be missed and ingested twice", f.site())


def rule_strand_heap_reset(F, rep):
    """Every braid starts from an empty strand heap: StrandHeap::clear empties the heap *and* resets the finalize
    flag, and the accessor that hands the heap to braid() calls it. (The heap lives in long-lived RuntimeBuffers;
    a braid aborted by an error leaves its strands behind, and stale strands make the next braid apply the wrong
    set of commands.)"""
    clr = F.fn(SH + "StrandHeap::clear")
    ok = bool(clr.field_stores("has_finalize")) and any(c.is_("BinaryHeap::clear") for c in clr.calls)
    rep.check(ok, "StrandHeap::clear|empties-heap-and-flag", "K1 must-pass-through",
              "StrandHeap::clear() empties the heap and resets has_finalize",
              "StrandHeap::clear() no longer empties the heap (or no longer resets the flag): strands left by a braid that was aborted with an error leak into the next braid", clr.site())
    getters = [f for f in F.fns if f.crate == "aranya_runtime" and not f.derived and any(c.is_(SH + "StrandHeap::clear") for c in f.calls) and f is not clr]
    brs = F.fn("aranya_runtime::client::braiding::braid")
    uses = [c for c in brs.calls if any(c.path == g.path for g in getters)]
    rep.check(bool(getters) and bool(uses), "braid|starts-from-cleared-heap", "K1 must-pass-through",
              "braid() obtains its strand heap through an accessor that clears it (%s)" % [g.name for g in getters],
              "braid() does not obtain its strand heap through an accessor that clears it first", brs.site())
