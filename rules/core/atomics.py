"""K8 helpers: atomic operations with their constant operands and orderings."""
from .facts import Operand

RMW = {"swap", "fetch_add", "fetch_sub", "fetch_or", "fetch_and", "fetch_xor", "fetch_max", "fetch_min", "fetch_update",
       "compare_exchange", "compare_exchange_weak", "load", "store"}
STRONG_REL = {"Release", "AcqRel", "SeqCst"}
STRONG_ACQ = {"Acquire", "AcqRel", "SeqCst"}


def ordering_of(f, op):
    """Ordering variant name carried by an operand (constructed as an aggregate or a constant)."""
    if op is None:
        return None
    if op.const is not None:
        d = op.const.get("dbg") or ""
        return d.split("::")[-1] if "Ordering" in d or d in ("Relaxed", "Release", "Acquire", "AcqRel", "SeqCst") else None
    if op.place is None:
        return None
    seen = set()
    for k, s in f.backward_sources(op.place.local, through_calls=())[1]:
        if k == "stmt" and s.rv_kind() == "agg" and s.rv[1].get("adt", "").endswith("atomic::Ordering"):
            seen.add(s.rv[1].get("variant"))
        if k == "stmt" and s.rv_kind() == "use":
            o = Operand(s.rv[1])
            if o.const is not None and "Ordering" in (o.const.get("dbg") or ""):
                seen.add(o.const["dbg"].split("::")[-1])
    if len(seen) == 1:
        return seen.pop()
    return None if not seen else "|".join(sorted(seen))


class AtomicOp:
    def __init__(self, f, call):
        self.f = f
        self.call = call
        self.name = call.name
        self.bb = call.bb
        self.field = None
        org = f.origins(call.args[0], through_calls=("inner", "Deref::deref", "as_ref", "deref"))
        flds = [t[6:] for t in org if t.startswith("field:")]
        self.fields = flds
        self.orderings = []
        self.values = []
        for a in call.args[1:]:
            o = ordering_of(f, a)
            ty = f.local_ty(a.place.local) if a.place is not None else (a.const or {}).get("ty", "")
            if o is not None and "Ordering" in (ty or "Ordering"):
                self.orderings.append(o)
            else:
                self.values.append(a)

    def const_values(self):
        out = []
        for v in self.values:
            if v.const is not None:
                out.append(v.const.get("val") if v.const.get("val") is not None else (v.const.get("def") or v.const.get("dbg")))
            else:
                c = None
                for k, s in self.f.backward_sources(v.place.local, through_calls=())[1]:
                    if k == "stmt" and s.rv_kind() == "use":
                        o = Operand(s.rv[1])
                        if o.const is not None:
                            c = o.const.get("val") if o.const.get("val") is not None else (o.const.get("def") or o.const.get("dbg"))
                out.append(c)
        return out

    def __repr__(self):
        return "%s(%s; %s; %s)@%s" % (self.name, ",".join(self.fields), self.const_values(), ",".join(self.orderings), self.call.site())


def atomic_ops(f):
    out = []
    for c in f.calls:
        if c.path and "sync::atomic::Atomic" in c.path and c.name in RMW:
            out.append(AtomicOp(f, c))
    return out


def fences(f):
    out = []
    for c in f.calls:
        if c.is_("atomic::fence", "atomic::compiler_fence"):
            out.append((c, ordering_of(f, c.args[0])))
    return out


def cname_val(F, v):
    """Resolve a constant name (def path) to its integer value if the crate's consts table has it."""
    if isinstance(v, int):
        return v
    if isinstance(v, str):
        c = F.consts.get(v)
        if c and c.get("val") is not None:
            return c["val"]
    return v
