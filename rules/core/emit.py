"""K9: emission templates of the policy compiler.

Within a region of a code-generator function, recover the events that shape the emitted code:
  emit     append_instruction(Instruction::V [Target::Unresolved(label)])
  compile  recursive compile_typed_expression / compile_typed_statements(operand)
  label    define_label(label, wp)
  new      anonymous_label()
Operands and labels are identified by the named bindings (MIR debug info) they derive from, never
by position or text."""
from .facts import Operand, PASS_THROUGH

COMPILE_FNS = ("compile_typed_expression", "compile_typed_statements", "compile_typed_statement", "compile_match_statement_or_expression")


class Ev:
    def __init__(self, kind, call, **kw):
        self.kind = kind
        self.call = call
        self.bb = call.bb
        self.__dict__.update(kw)

    def __repr__(self):
        d = {k: v for k, v in self.__dict__.items() if k not in ("call", "kind", "bb")}
        return "%s@bb%d%s" % (self.kind, self.bb, d)


def named(f, local, through=("Clone::clone", "Deref::deref", "into_iter", "IntoIterator::into_iter", "next", "Iterator::next")):
    """names of the *nearest* source-level bindings a local derives from (the traversal stops at
    the first named local on each path)."""
    out = set()
    seen = set()
    work = [local]
    defs = f.defs()
    while work:
        l = work.pop()
        if l in seen:
            continue
        seen.add(l)
        nm = f.local_name(l)
        if nm and nm != "self" and l != local:
            out.add(nm)
            continue
        if nm and nm != "self" and l == local:
            out.add(nm)
            continue
        for kind, site in defs.get(l, []):
            if kind == "stmt":
                for p in site.src_places():
                    work.append(p.local)
            else:
                if site.is_(*through):
                    for a in site.args:
                        if a.place is not None:
                            work.append(a.place.local)
    return out


def variant_fields(f, local):
    """(variant, field index) pairs of the enum payload fields a local is moved out of (through Box
    derefs and plain moves): which operand of the matched node this is, independent of its name."""
    out = set()
    for k, st in f.backward_sources(local, through_calls=("Deref::deref", "Clone::clone"))[1]:
        if k != "stmt":
            continue
        for p in st.src_places():
            v = None
            for pr in p.proj:
                if pr[0] == "v":
                    v = pr[1]
                elif pr[0] == "f" and v is not None:
                    out.add((v, pr[1]))
                    v = None
    return out


def label_sources(f, local, through=("Clone::clone", "Deref::deref")):
    """blocks of the anonymous_label() calls a label operand derives from"""
    out = set()
    seen = set()
    work = [local]
    defs = f.defs()
    while work:
        l = work.pop()
        if l in seen:
            continue
        seen.add(l)
        for kind, site in defs.get(l, []):
            if kind == "stmt":
                for p in site.src_places():
                    work.append(p.local)
            else:
                if site.name == "anonymous_label":
                    out.add(site.bb)
                elif site.is_(*through):
                    for a in site.args:
                        if a.place is not None:
                            work.append(a.place.local)
    return out


def err_edges(f):
    out = set()
    for c in f.calls:
        if c.is_("Try::branch"):
            oe = f.outcome_edges(c)
            if "Break" in oe:
                out.add(oe["Break"])
    return out


def events(F, f, region=None):
    evs = []
    for c in f.calls:
        if region is not None and c.bb not in region:
            continue
        if c.name == "append_instruction":
            a = c.args[1]
            var = None
            labels = set()
            lsrc = set()
            exit_reason = None
            payload = None
            if a.place is not None:
                for k, s in f.backward_sources(a.place.local, through_calls=())[1]:
                    if k == "stmt" and s.rv_kind() == "agg":
                        adt = s.rv[1].get("adt", "")
                        if adt.endswith("instructions::Instruction") and var is None:
                            var = s.rv[1].get("variant")
                        if adt.endswith("Target"):
                            for o in s.operands():
                                if o.place is not None:
                                    labels |= named(f, o.place.local)
                                    lsrc |= label_sources(f, o.place.local)
                        if adt.endswith("ExitReason"):
                            exit_reason = s.rv[1].get("variant")
                        if adt.endswith("data::ConstValue"):
                            ops = s.operands()
                            payload = ("ConstValue", s.rv[1].get("variant"), ops[0].const.get("dbg") if ops and ops[0].const is not None else None)
                        if adt.endswith("instructions::WrapType"):
                            payload = ("WrapType", s.rv[1].get("variant"), None)
                    if k == "stmt" and s.rv_kind() == "use":
                        o = Operand(s.rv[1])
                        if o.const is not None and "ConstValue::" in str(o.const.get("dbg")):
                            payload = ("ConstValue", str(o.const.get("dbg")).split("ConstValue::")[-1], None)
            evs.append(Ev("emit", c, variant=var, labels=labels, lsrc=lsrc, exit_reason=exit_reason, payload=payload))
        elif c.name in COMPILE_FNS:
            a = c.args[1] if len(c.args) > 1 else None
            names = named(f, a.place.local) if a is not None and a.place is not None else set()
            evs.append(Ev("compile", c, names=names, fn=c.name, fields=variant_fields(f, a.place.local) if a is not None and a.place is not None else set()))
        elif c.name == "define_label":
            a = c.args[1]
            evs.append(Ev("label", c, labels=named(f, a.place.local) if a.place is not None else set(),
                          lsrc=label_sources(f, a.place.local) if a.place is not None else set()))
        elif c.name == "anonymous_label":
            al = f.forward_aliases(c.dest.local)
            evs.append(Ev("new", c, labels={f.local_name(l) for l in al if f.local_name(l)}, lsrc={c.bb}))
        elif c.name in ("compile_match_arm_epilogue",):
            evs.append(Ev("epilogue", c, labels=named(f, c.args[1].place.local) if c.args[1].place is not None else set(),
                          lsrc=label_sources(f, c.args[1].place.local) if c.args[1].place is not None else set()))
    return evs


def must_pass(f, start_bb, through, targets, cut):
    """every normal path from start_bb to a target block passes a `through` block."""
    through = set(through)
    if start_bb in through:
        return True
    r = f.reachable_after(start_bb, cut_edges=cut, cut_blocks=through)
    return not (r & set(targets))


def diamond(f, evs, cond_names, then_names, else_names, rep, key, site, cut, lazy_required=True):
    """Shape: [cond] Branch(L) [X] Jump(E) L: [Y] E:
    X = fall-through region (Branch not taken), Y = region at L. `then_names` is compiled in the region
    entered when the Branch IS taken (Y) or not (X) - we do not care which, only that each lazy
    operand is compiled exactly once, after the Branch, inside exactly one of X / Y, and that X ends
    with the Jump."""
    br = [e for e in evs if e.kind == "emit" and e.variant == "Branch"]
    jp = [e for e in evs if e.kind == "emit" and e.variant == "Jump"]
    lb = [e for e in evs if e.kind == "label"]
    if len(br) != 1 or len(jp) != 1 or len(lb) != 2:
        rep.violation(key + "|shape", "K9 emission template",
                      "expected one Branch, one Jump and two label definitions, found %d/%d/%d" % (len(br), len(jp), len(lb)), site)
        return False
    B, J = br[0], jp[0]
    DL = [e for e in lb if e.labels & B.labels]
    DE = [e for e in lb if e.labels & J.labels]
    ok = len(DL) == 1 and len(DE) == 1 and DL[0] is not DE[0]
    if not ok:
        rep.violation(key + "|labels", "K9 emission template", "Branch/Jump targets are not the two labels defined in the template (%s / %s / %s)" % (B.labels, J.labels, [e.labels for e in lb]), site)
        return False
    DL, DE = DL[0], DE[0]
    order = f.dominates(B.bb, J.bb) and f.dominates(J.bb, DL.bb) and f.dominates(DL.bb, DE.bb)
    rep.check(order, key + "|order", "K9 emission template", "Branch(L) .. Jump(E) .. L: .. E: in this order", "the diamond's pieces are emitted out of order", site)
    # X always ends with the Jump
    rep.check(must_pass(f, B.bb, [J.bb], [DL.bb], cut), key + "|fallthrough-ends-with-jump", "K9 emission template",
              "every path from the Branch emission to the definition of L passes the Jump(E) emission",
              "the fall-through region can run into the other region: Jump(E) is skipped on some path before L is defined", site)
    comps = [e for e in evs if e.kind == "compile"]
    good = True
    for nm_set, what in ((cond_names, "condition"),):
        cs = [e for e in comps if e.names & nm_set]
        if not (len(cs) == 1 and f.dominates(cs[0].bb, B.bb)):
            good = False
            rep.violation(key + "|cond", "K9 emission template", "the %s %s is not compiled exactly once before the Branch" % (what, sorted(nm_set)), site)
    for nm_set in (then_names, else_names):
        if not nm_set:
            continue
        cs = [e for e in comps if e.names & nm_set]
        inX = [e for e in cs if f.dominates(B.bb, e.bb) and f.dominates(e.bb, J.bb)]
        inY = [e for e in cs if f.dominates(DL.bb, e.bb) and f.dominates(e.bb, DE.bb)]
        if not (len(cs) == 1 and len(inX) + len(inY) == 1):
            good = False
            rep.violation(key + "|lazy:%s" % "+".join(sorted(nm_set)), "K9 emission template",
                          "operand %s must be compiled exactly once, after the Branch, inside one region (compiled %d times; in fall-through %d, at L %d)" % (
                              sorted(nm_set), len(cs), len(inX), len(inY)), site)
    if then_names and else_names:
        # the two lazy operands are in different regions
        a = [e for e in comps if e.names & then_names]
        b = [e for e in comps if e.names & else_names]
        if a and b:
            ax = f.dominates(a[0].bb, J.bb)
            bx = f.dominates(b[0].bb, J.bb)
            if ax == bx:
                good = False
                rep.violation(key + "|separate-regions", "K9 emission template", "both branches are compiled in the same region", site)
    if good:
        rep.ok("K9 emission template", key + "|operands", site, "cond before Branch; lazy operands compiled once, each inside one region")
    return good


def bool_binding(f, local, depth=8):
    """(name, negated) when `local` is a copy / logical negation of a named bool binding."""
    neg = False
    l = local
    for _ in range(depth):
        nm = f.local_name(l)
        if nm and nm != "self":
            return nm, neg, l
        ds = [s for k, s in f.defs().get(l, []) if k == "stmt"]
        if len(ds) != 1:
            return None
        s = ds[0]
        if s.rv_kind() == "use":
            o = Operand(s.rv[1])
        elif s.rv_kind() == "un" and s.rv[1] == "Not":
            o = Operand(s.rv[2])
            neg = not neg
        else:
            return None
        if o.place is None:
            return None
        # deref of a reference to the binding is fine
        l = o.place.local
    return None


def templates(F, f, start, region, cut, limit=4096, field_conds=False):
    """All distinct linear emission templates of the arm entered at `start`: the sequences of
    events along each normal (non-error, non-unwind) path through `region`, with the values of the
    named bool bindings the path's branches imply. Returns None when the arm contains a loop."""
    evs = {e.bb: e for e in events(F, f, region)}
    out = {}
    count = [0]
    cut = set(cut)
    dsw = {}
    for b, arms, other, st in f.discr_switches(None):
        nm = named(f, st.rv[1]["l"]) if isinstance(st.rv[1], dict) else set()
        if len(nm) == 1:
            dsw[b] = (sorted(nm)[0], arms)

    def walk(bb, path, conds, onpath):
        if count[0] > limit:
            return False
        if bb not in region:
            count[0] += 1
            key = (tuple(sorted(conds.items())), tuple(e.bb for e in path))
            out[key] = (dict(conds), list(path))
            return True
        if bb in onpath:
            return False
        onpath = onpath | {bb}
        if bb in evs:
            path = path + [evs[bb]]
        succs = [s for s in f.succ(bb) if (bb, s) not in cut and not f.is_cleanup(s) and not f.is_unreachable_block(s)]
        sw = f.switch_on(bb)
        bind = None
        if sw and sw[0].place is not None and not sw[0].place.proj:
            bind = bool_binding(f, sw[0].place.local)
        for s in succs:
            c2 = conds
            if bind:
                name, neg, bl = bind
                if field_conds:
                    vf = variant_fields(f, bl)
                    if len(vf) == 1:
                        name = sorted(vf)[0]
                val = None
                for v, t in sw[1].items():
                    if t == s:
                        val = bool(int(v))
                if val is None and s == sw[2]:
                    val = True if set(int(v) for v in sw[1]) == {0} else None
                if val is not None:
                    bv = val != neg
                    if name in conds and conds[name] != bv:
                        continue
                    c2 = dict(conds)
                    c2[name] = bv
            if bb in dsw and bb != start_switch:
                name, arms = dsw[bb]
                vs = [v for v, t in arms.items() if t == s]
                if len(vs) == 1:
                    k = "discr:" + name
                    if k in conds and conds[k] != vs[0]:
                        continue
                    c2 = dict(conds)
                    c2[k] = vs[0]
            if not walk(s, path, c2, onpath):
                return False
        return True

    start_switch = None
    if not walk(start, [], {}, frozenset()):
        return None
    return list(out.values())
