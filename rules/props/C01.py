"""C01 Replicas holding the same commands converge.

Decided (ordering determinism: every ordering decision that shapes the braid or the head pairing
depends only on replicated data; structural):
 R1 K3+K6 HeadSet.heads is written only by HeadSet::single / HeadSet::push; push inserts at the
        Err(index) of binary_search on the same vector.
 R2 K10 LocatedAddress derives Ord with the global command `id` as first field.
 R3 K6  strand_heap::Strand's Ord/PartialOrd/PartialEq read only `key`; key: (Priority, CmdId) is
        built from cmd.priority()/cmd.id() of the command at `location`; cmp is the reversed key
        comparison; no Location/SegmentIndex flows into it.
 R4 K5  collapse_heads and synthetic_head both fold through fold_merge_pairs (front-pop pairing)
        and derive each merge via MergeIds::new (ordered by id) + Policy::merge; VmPolicy::merge
        derives the merge id from the ordered pair.
 R5 K6  Transaction::commit builds the committed set from self.heads (BTreeMap by CmdId) through
        HeadSet::push only.
 R6 K6  the braid's base state does not depend on segment boundaries: where get_fact_perspective
        reuses a segment's end-of-segment fact index, the "no fact updates" scan that licenses it is
        not restricted to the prefix up to `location`.
 R7 K2  duplicates are recognised: Transaction::locate answers "absent" only after the committed graph and
        every transaction tip were searched.
 R8 K1+K6 a rejected offer leaves the transaction's tips as they were (shared with C06-R7/C09-R4): the parent
        tip is retired only after its child was added, a fresh empty perspective is dropped, nothing else.
Not decided: equality of heads/facts/hello head over all delivery histories (value-level)."""
from rules.core import rt, pat

CRATES = ["aranya_runtime"]
THOROUGH_CONFIGS = ["lowmem"]   # thorough tier: the same rules on the low-mem-usage build


def run(F, rep, tier):
    rep.explanation = __doc__
    rt.rule_headset(F, rep)
    rt.rule_strand_order(F, rep)
    rt.rule_fold_siblings(F, rep)
    rt.rule_vm_merge(F, rep)
    rt.rule_locate(F, rep)
    from rules.props import C06 as _c06
    _c06.check_install_fill(F, rep)   # R8: a rejected offer must not change the transaction's tips (shared with C06-R7 / C09-R4)
    cm = F.fn(rt.TX + "Transaction::commit")
    hs = [c for c in cm.calls if c.path and "head_set::HeadSet" in c.path]
    pushes = [c for c in hs if c.name == "push"]
    ch = [c for c in cm.calls if c.name == "commit_heads"]
    ok = bool(pushes) and {c.name for c in hs} <= {"push", "iter", "default", "len", "is_empty", "as_slice"} and bool(ch)
    if ok:
        o = cm.origins(ch[0].args[1], through_calls="*")
        ok = "call:push" in o or "call:default" in o
        ty = cm.j["locals"]
        heads_ty = [l["ty"] for l in ty if "BTreeMap" in l["ty"] and "Id<" in l["ty"]]
    rep.check(ok, "commit|head-set-built-by-push", "K3 who-may-write",
              "Transaction::commit builds the committed HeadSet from self.heads only through HeadSet::push", site=cm.site())
    tadt = F.adt(rt.TX + "Transaction")
    hty = [x["ty"] for x in tadt["variants"][0]["fields"] if x["name"] == "heads"]
    rep.check(bool(hty) and "BTreeMap" in hty[0] and "HashMap" not in hty[0], "Transaction.heads|ordered-map", "K10 type fact",
              "Transaction.heads is a BTreeMap keyed by CmdId: %s" % (hty[0][:90] if hty else None))
    # the braid's heap: BinaryHeap<Strand>
    sadt = F.adt(rt.SH + "StrandHeap")
    heap = [x["ty"] for x in sadt["variants"][0]["fields"] if x["name"] == "heap"]
    rep.check(bool(heap) and "BinaryHeap" in heap[0], "StrandHeap.heap|binary-heap-of-strands", "K10 type fact",
              "braid tie-breaking is delegated to BinaryHeap<Strand> with the key-only Ord", site=None)
    # R6 batching independence of the braid's base state
    n = 0
    for g in F.fns:
        if g.name == "get_fact_perspective" and g.trait and g.trait.endswith("storage::Storage"):
            n += 1
            shortcut = [s for s in g.stmts() if s.rv_kind() == "agg" and s.rv[1].get("variant") == "FactIndex"
                        and any("field:facts" in g.origins(o, through_calls=()) and "field:prior_facts" not in g.origins(o, through_calls=()) for o in s.operands())]
            tests = [c for c in g.calls if c.is_("Iterator::all", "Iterator::any") and "field:commands" in g.origins(c.args[0], through_calls="*")]
            if not shortcut or not tests:
                rep.ok("K6 provenance", "%s: no end-of-segment shortcut guarded by an emptiness scan (nothing to check)" % g.path.split("::")[-3], g.site())
                continue
            for c in tests:
                sl, sites = g.backward_sources(c.args[0].place.local, through_calls="*")
                bad = []
                for k, s in sites:
                    if k == "call" and s.is_("Index::index", "slice::get", "Iterator::take", "Iterator::take_while"):
                        ty = g.local_ty(s.args[1].place.local) if len(s.args) > 1 and s.args[1].place is not None else ""
                        if s.name in ("take", "take_while") or "RangeTo" in ty or "ops::range::Range<" in ty or "ops::Range<" in ty:
                            bad.append("%s(%s)" % (s.name, ty.split("::")[-1]))
                rep.check(not bad, "get_fact_perspective|shortcut-scans-past-location", "K6 provenance",
                          "the end-of-segment fact index is reused only when the scan for fact updates is not cut off at `location` (whole segment or the part after it)",
                          "get_fact_perspective reuses the segment's final fact index although it only checked a prefix of the segment (%s): commands after `location` "
                          "in the same segment are applied early, so the result depends on how commands were batched into segments" % ", ".join(bad), c.site())
    rep.floor("Storage::get_fact_perspective implementations", n, 1)
