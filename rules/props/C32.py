"""C32 Text and identifier values always satisfy their invariants.

Decided (constructor discipline, structural):
 R1 K3+K1 every construction of Text(..) / Identifier(..) inside aranya-policy-text is dominated by
        the success edge of the matching validator on the same string (Text::validate for Text,
        Identifier::validate for Identifier), or is one of the audited exceptions, each with its
        reason: Text::new (empty), the unsafe doc(hidden) __from_literal pair (fed by the validating
        proc-macros; every call site in the policy crates comes from text!/ident! expansion or is
        inside this crate), TryFrom<&CStr> (CStr::to_str: no interior NUL), Add (concatenation of
        two valid texts), ArchivedIdentifier::deserialize (archives are verified on access, R2),
        derive-generated Clone/Default/rkyv::Deserialize.
        The fields are not public: Text.0 is pub(crate), Identifier.0 private.
 R2 K7  archive access: the bytecheck CheckBytes impls of ArchivedText / ArchivedIdentifier call
        Verify::verify, and the Verify impls call Text::validate / Identifier::validate
        respectively (each type its own validator).
 R3 K6  Repr's PartialEq / Ord / PartialOrd / Hash apply the operation to as_str() of the operand(s)
        and read nothing else (content, not storage class).
 R4 K2  validators: Text::validate returns Err exactly on the Some edge of bytes().position(b == 0);
        Identifier::validate returns Err on empty input, on a first byte that is not
        is_ascii_alphabetic, and on a later byte that is neither is_ascii_alphanumeric nor b'_'; the
        proc-macro validators apply the same predicates.
Not decided: nothing beyond the predicates' own library semantics."""
from rules.core import pat
from rules.core.facts import Operand, PASS_THROUGH

CRATES = ["aranya_policy_text", "aranya_policy_text_macro", "aranya_policy_ast", "aranya_policy_lang", "aranya_policy_module",
          "aranya_policy_compiler", "aranya_policy_vm", "aranya_runtime"]
T = "aranya_policy_text::"

EXCEPTIONS = {
    ("Text", T + "text::Text::new"): "the empty string contains no NUL",
    ("Text", T + "text::Text::__from_literal"): "unsafe fn: literal validated by the validate_text! proc-macro (R1 call-site rule, R4 macro rule)",
    ("Identifier", T + "ident::Identifier::__from_literal"): "unsafe fn: literal validated by validate_identifier!",
    ("Text", "<aranya_policy_text::text::Text as core::convert::TryFrom>::try_from#CStr"): "CStr::to_str output has no interior NUL by CStr's invariant",
    ("Text", "<&aranya_policy_text::text::Text as core::ops::arith::Add>::add"): "concatenation of two valid texts (no NUL in either)",
    ("Text", T + "ident::ArchivedIdentifier::deserialize"): "from an archived identifier, verified by bytecheck on access (R2)",
    ("Identifier", T + "ident::ArchivedIdentifier::deserialize"): "same",
}
DERIVED_OK = ("Clone", "Default", "rkyv::Deserialize", "rkyv::Archive", "rkyv::Serialize")


def run(F, rep, tier):
    rep.explanation = __doc__
    sites = 0
    used_exc = set()
    for f in F.fns:
        if f.crate != "aranya_policy_text":
            continue
        for s in f.stmts():
            if s.rv_kind() != "agg":
                continue
            adt = s.rv[1].get("adt", "")
            kind = adt.split("::")[-1]
            if adt not in (T + "text::Text", T + "ident::Identifier"):
                continue
            sites += 1
            key = f.path
            if kind == "Text" and f.name == "try_from" and "CStr" in f.local_ty(1):
                key = f.path + "#CStr"
            if f.derived or (f.exp and any(m in DERIVED_OK for m in f.macs)):
                ok = any(m in DERIVED_OK for m in f.macs)
                rep.check(ok, "construct|%s|derived:%s" % (kind, ",".join(f.macs[:1])), "K3 who-may-construct",
                          "derive(%s) preserves/produces a valid value" % ",".join(f.macs[:1]),
                          "%s built in derive expansion %s which is not in the reviewed list" % (kind, f.macs), f.site(s.line))
                continue
            if (kind, key) in EXCEPTIONS:
                used_exc.add((kind, key))
                extra = True
                if key.endswith("#CStr"):
                    extra = any(c.is_("CStr::to_str") for c in f.calls)
                if key.endswith("Add>::add"):
                    extra = sum(1 for c in f.calls if c.name == "as_str") >= 2 and any(c.name == "push_str" for c in f.calls)
                if key.endswith("ArchivedIdentifier::deserialize"):
                    extra = any(c.name == "as_str" for c in f.calls)
                if key.endswith("__from_literal"):
                    extra = f.unsafe
                rep.check(extra, "construct|%s|exception:%s" % (kind, short(key)), "K3 who-may-construct",
                          "audited exception: %s" % EXCEPTIONS[(kind, key)],
                          "%s no longer matches its audited exception (%s)" % (key, EXCEPTIONS[(kind, key)]), f.site(s.line))
                continue
            # must be dominated by the success edge of a validator
            want = "Identifier::validate" if kind == "Identifier" else None
            vals = [c for c in f.calls if c.is_("text::Text::validate", "ident::Identifier::validate")]
            ok = False
            which = None
            for c in vals:
                e = pat.ok_edge(f, c)
                if e and f.dominates(e[1], s.bb):
                    which = c.path.split("::")[-2] + "::validate"
                    if kind == "Text" or c.is_("ident::Identifier::validate"):
                        ok = True
            # Text built on the way to an Identifier is fine under Identifier::validate
            # FromStr for Text may delegate (TryFrom<String> calls parse) - those build no aggregate
            rep.check(ok, "construct|%s|%s" % (kind, short(f.path)), "K1 validated-before-construct",
                      "%s(..) is dominated by the success edge of %s" % (kind, which),
                      "%s is constructed in %s without a dominating successful %s" % (kind, f.path, want or "Text::validate"), f.site(s.line))
    rep.floor("Text/Identifier construction sites", sites, 17)
    rep.check(used_exc == set(EXCEPTIONS), "construct|exception-table-current", "K3 who-may-construct",
              "every audited exception still exists (%d)" % len(EXCEPTIONS),
              "audited exceptions no longer present: %s" % sorted(k[1] for k in set(EXCEPTIONS) - used_exc))
    # field visibility
    for name, path in (("Text", T + "text::Text"), ("Identifier", T + "ident::Identifier")):
        a = F.adt(path)
        vis = a["variants"][0]["fields"][0]["vis"]
        rep.check(vis != "pub", "%s|field-not-public" % name, "K10 type fact", "%s's field visibility is `%s`" % (name, vis))
    # __from_literal call sites
    n = 0
    bad = []
    for f in F.fns:
        for c in f.calls:
            if c.name == "__from_literal" and c.path and c.path.startswith(T):
                n += 1
                inside = f.crate == "aranya_policy_text"
                via_macro = any(m in ("ident", "text", "aranya_policy_text::ident", "$crate::ident", "$crate::text") or m.endswith("::ident") or m.endswith("::text") for m in c.macs)
                if not (inside or via_macro):
                    bad.append("%s (%s)" % (f.path, c.site()))
    rep.check(not bad, "from_literal|call-sites", "K3 who-may-call",
              "all %d calls of the unsafe __from_literal constructors come from text!/ident! expansions (validated literals)" % n,
              "__from_literal is called outside the validating macros: %s" % bad[:5])
    rep.floor("__from_literal call sites", n, 20)

    # R2
    for adt, validator in (("text::ArchivedText", "text::Text::validate"), ("ident::ArchivedIdentifier", "ident::Identifier::validate")):
        cb = [f for f in F.fns if f.name == "check_bytes" and f.self_adt == T + adt]
        vf = [f for f in F.fns if f.name == "verify" and f.self_adt == T + adt and f.trait and f.trait.endswith("Verify")]
        ok = len(cb) == 1 and any(c.is_("Verify::verify") for c in cb[0].calls)
        rep.check(ok, "archive|%s|check_bytes-calls-verify" % adt.split("::")[-1], "K7 table agreement",
                  "CheckBytes for %s calls Verify::verify (bytecheck(verify) is enabled)" % adt,
                  "the bytecheck impl of %s does not run the Verify hook" % adt, cb[0].site() if cb else None)
        ok = len(vf) == 1
        if ok:
            called = [c for c in vf[0].calls if c.name == "validate"]
            ok = len(called) == 1 and called[0].is_(validator)
            oks = pat.ok_returns(vf[0])
        rep.check(ok, "archive|%s|verify-uses-own-validator" % adt.split("::")[-1], "K7 table agreement",
                  "Verify for %s calls %s" % (adt, validator),
                  "Verify for %s does not call %s: archived values would bypass the type's invariant" % (adt, validator), vf[0].site() if vf else None)
    # R3
    for name, tr, nstr in (("eq", "cmp::PartialEq", 2), ("cmp", "cmp::Ord", 2), ("hash", "hash::Hash", 1)):
        fs = [f for f in F.fns if f.name == name and f.trait and f.trait.endswith(tr) and f.self_adt == T + "repr::Repr"]
        ok = len(fs) == 1
        if ok:
            f = fs[0]
            as_str = [c for c in f.calls if c.is_("repr::Repr::as_str")]
            op = [c for c in f.calls if c.name == name and c is not None and not c.is_("repr::Repr::as_str")]
            reads = set()
            for s in f.stmts():
                for p in s.src_places():
                    reads |= set(x for x in p.fields() if not x.isdigit())
            # ... nor on how the value is stored: the representation's variant (Static / Inline / Heap) is not inspected
            discr = [s for s in f.stmts() if s.rv_kind() == "discr"]
            ok = len(as_str) == nstr and len(op) == 1 and not reads and not discr
            if ok:
                for a in op[0].args[:nstr]:
                    ok = ok and "call:as_str" in f.origins(a, through_calls=())
        rep.check(ok, "Repr::%s|content-only" % name, "K6 provenance", "Repr::%s applies the operation to as_str() only" % name,
                  "Repr::%s depends on more than the string content (a field or the storage variant of the representation is inspected): equal text stored differently "
                  "(a `text!` literal vs. a parsed value) would compare or hash differently" % name, fs[0].site() if fs else None)
    pc = [f for f in F.fns if f.name == "partial_cmp" and f.self_adt == T + "repr::Repr"]
    rep.check(len(pc) == 1 and any(c.is_("Ord::cmp") for c in pc[0].calls), "Repr::partial_cmp|delegates", "K6 provenance", "partial_cmp = Some(cmp)")
    # R4 validators
    tv = F.fn(T + "text::Text::validate")
    pos = [c for c in tv.calls if c.name == "position"]
    ok = len(pos) == 1
    if ok:
        oe = tv.outcome_edges(pos[0])
        errs = [s for s in tv.stmts() if s.rv_kind() == "agg" and s.rv[1].get("variant") == "Err" and s.place.local == 0]
        oks = pat.ok_returns(tv)
        ok = "Some" in oe and "None" in oe and all(tv.dominates(oe["Some"][1], s.bb) for s in errs) and all(tv.dominates(oe["None"][1], s.bb) for s in oks) and bool(errs) and bool(oks)
        cls = tv.closures_in_args(pos[0], F)
        ok = ok and len(cls) == 1 and any(c["op"] == "Eq" and (c["a"].val == 0 or c["b"].val == 0) for c in cls[0].cmp_switches() + eq_stmts(cls[0]))
    rep.check(ok, "Text::validate|nul-check", "K2 polarity", "Err exactly when bytes().position(|b| b == 0) is Some",
              "Text::validate does not reject exactly the strings containing a NUL byte", tv.site())
    iv = F.fn(T + "ident::Identifier::validate")
    checks = {"is_empty": None, "is_ascii_alphabetic": None, "is_ascii_alphanumeric": None}
    for c in iv.calls:
        if c.name in checks:
            checks[c.name] = c
    ok = all(checks.values())
    if ok:
        errv = {s.rv[1].get("variant"): s for s in iv.stmts() if s.rv_kind() == "agg" and s.rv[1].get("adt", "").endswith("InvalidIdentifierRepr")}
        e = iv.outcome_edges(checks["is_empty"])
        ok = "true" in e and "NotEmpty" in errv and iv.dominates(e["true"][1], errv["NotEmpty"].bb)
        e = iv.outcome_edges(checks["is_ascii_alphabetic"])
        ok = ok and "false" in e and "InitialNotAlphabetic" in errv and iv.dominates(e["false"][1], errv["InitialNotAlphabetic"].bb)
        e = iv.outcome_edges(checks["is_ascii_alphanumeric"])
        ok = ok and "false" in e and "TrailingNotValid" in errv and errv["TrailingNotValid"].bb in iv.reachable(e["false"][1]) \
            and errv["TrailingNotValid"].bb not in iv.reachable(e["true"][1], cut_blocks={checks["is_ascii_alphanumeric"].bb, checks["is_ascii_alphabetic"].bb})
        under = [c for c in iv.cmp_switches() if c["op"] == "Eq" and (c["a"].val == 95 or c["b"].val == 95)]
        ok = ok and len(under) == 1 and errv["TrailingNotValid"].bb in iv.reachable(under[0]["ne"]) and errv["TrailingNotValid"].bb not in iv.reachable(under[0]["eq"], cut_blocks={checks["is_ascii_alphanumeric"].bb, checks["is_ascii_alphabetic"].bb})
        oks = pat.ok_returns(iv)
        ok = ok and bool(oks)
    rep.check(ok, "Identifier::validate|predicates", "K2 polarity",
              "Err on empty; Err when byte 0 is not ASCII alphabetic; Err when a later byte is neither ASCII alphanumeric nor '_'",
              "Identifier::validate's predicate/polarity table changed", iv.site())
    # proc-macro validators
    mt = [f for f in F.fns if f.crate == "aranya_policy_text_macro" and f.name == "validate_text" and f.path.endswith("imp::validate_text")]
    mi = [f for f in F.fns if f.crate == "aranya_policy_text_macro" and f.name == "validate_identifier" and f.path.endswith("imp::validate_identifier")]
    ok = len(mt) == 1 and any(c.name == "contains" for c in mt[0].calls)
    rep.check(ok, "macro|validate_text", "K2 polarity", "validate_text! rejects literals containing a NUL byte (bytes.contains(&0))", site=mt[0].site() if mt else None)
    ok = len(mi) == 1
    if ok:
        names = {c.name for c in mi[0].calls} | {c.name for g in F.closures_of(mi[0]) for c in g.calls}
        ok = {"is_ascii_alphabetic", "is_ascii_alphanumeric"} <= names
    rep.check(ok, "macro|validate_identifier", "K2 polarity", "validate_identifier! applies is_ascii_alphabetic / is_ascii_alphanumeric", site=mi[0].site() if mi else None)


def eq_stmts(f):
    out = []
    for s in f.stmts():
        if s.rv_kind() == "bin" and s.rv[1] == "Eq":
            out.append({"op": "Eq", "a": Operand(s.rv[2]), "b": Operand(s.rv[3])})
    return out


def short(p):
    return p.replace("aranya_policy_text::", "").replace("core::", "")
