"""C38 AFC channel keys agree only for matching parameters.

Decided (info coverage and role mirroring; structural):
 R1 K6  UniChannel::info copies every non-key field of UniChannel (parent_cmd_id, seal_id, open_id,
        label_id) into the Info field of the same name, under a constant domain tag.
 R2 K5  UniSecrets::new and both key types' from_author_secret / from_peer_encap all pass
        [ch.info().as_bytes()] as HPKE info, all reject seal_id == open_id before deriving anything,
        and use mirrored roles: the author side Mode::Auth(our sk) with the peer's pk as recipient;
        the peer side Mode::Auth(author's pk) with our sk as recipient.
 R3 K2+K6 Handler::uni_channel_created errors when device_id == effect.open_id, sets seal_id =
        self.device_id / open_id = effect.open_id and yields a SealOnly key;
        Handler::uni_channel_received errors when effect.seal_id == device_id, sets open_id =
        self.device_id / seal_id = effect.seal_id and yields an OpenOnly key (a device never derives
        both ends).
Not decided: the HPKE key agreement itself (spideroak-crypto, trusted)."""
from rules.core import pat
from rules.core.facts import Operand, PASS_THROUGH

CRATES = ["aranya_crypto", "aranya_afc_util"]
U = "aranya_crypto::afc::uni::"


def run(F, rep, tier):
    rep.explanation = __doc__
    info = F.fn(U + "UniChannel::info")
    ch = F.adt(U + "UniChannel")
    inf = F.adt(U + "Info")
    chf = [x for x in ch["variants"][0]["fields"]]
    nonkey = [x["name"] for x in chf if "EncryptionKey" not in x["ty"] and "EncryptionPublicKey" not in x["ty"]]
    inff = [x["name"] for x in inf["variants"][0]["fields"]]
    ag = [s for s in info.stmts() if s.rv_kind() == "agg" and s.rv[1].get("adt", "").endswith("uni::Info")]
    ok = len(ag) == 1
    table = {}
    if ok:
        for name, o in zip(ag[0].rv[1]["fields"], ag[0].operands()):
            if o.const is not None:
                table[name] = "const"
            else:
                org = info.origins(o, through_calls=())
                srcs = sorted(t[6:] for t in org if t.startswith("field:"))
                table[name] = srcs
        ok = all(table.get(f) == [f] for f in nonkey) and set(inff) == set(nonkey) | {"domain"} and table.get("domain") in ("const", [])
    rep.check(ok, "UniChannel::info|field-coverage", "K6 field coverage",
              "Info.{%s} := UniChannel.{same name}; domain constant (%s)" % (", ".join(nonkey), table),
              "UniChannel::info does not copy every channel parameter into the field of the same name: %s (non-key fields %s, Info fields %s)" % (table, nonkey, inff),
              info.site())
    # R2
    fns = [(U + "UniSecrets::new", "author"), (U + "UniSealKey::from_author_secret", "author"), (U + "UniOpenKey::from_author_secret", "author"),
           (U + "UniSealKey::from_peer_encap", "peer"), (U + "UniOpenKey::from_peer_encap", "peer")]
    n = 0
    for path, role in fns:
        f = F.fn(path)
        n += 1
        hp = [c for c in f.calls if c.name in ("setup_send", "setup_send_deterministically", "setup_recv")]
        hp1 = pat.one(rep, hp, "HPKE setup in %s" % path, f)
        if not hp1:
            continue
        io = f.origins(hp1.args[-1 if hp1.name == "setup_recv" else 2], through_calls="*")
        # info argument: ch.info().as_bytes()
        info_arg = hp1.args[3] if hp1.name == "setup_recv" else hp1.args[2]
        io = f.origins(info_arg, through_calls="*")
        ok = "call:info" in io and "argname:ch" in io
        rep.check(ok, "%s|info" % short(path), "K6 provenance", "HPKE info is [ch.info().as_bytes()]",
                  "%s: HPKE info is not derived from ch.info()" % short(path), hp1.site())
        # same-device rejection dominates
        cmpc = [c for c in f.cmp_switches() if ("field:seal_id" in f.origins(c["a"], through_calls=()) and "field:open_id" in f.origins(c["b"], through_calls=()))
                or ("field:open_id" in f.origins(c["a"], through_calls=()) and "field:seal_id" in f.origins(c["b"], through_calls=()))]
        ok = len(cmpc) == 1 and f.dominates(cmpc[0]["ne"], hp1.bb) and hp1.bb not in f.reachable(cmpc[0]["eq"], cut_blocks={cmpc[0]["bb"]})
        rep.check(ok, "%s|rejects-same-device" % short(path), "K2 guarded-by",
                  "the key derivation is reachable only on the seal_id != open_id edge",
                  "%s derives keys even when seal_id == open_id" % short(path), f.site())
        # roles
        midx = 0 if hp1.name != "setup_send" else 1
        if hp1.name == "setup_send_deterministically":
            midx = 0
        ag = [x for k, x in f.backward_sources(hp1.args[midx].place.local, through_calls=())[1] if k == "stmt" and x.rv_kind() == "agg" and x.rv[1].get("adt", "").endswith("hpke::Mode")]
        ok = len(ag) == 1 and ag[0].rv[1].get("variant") == "Auth"
        if ok:
            mo = f.origins(ag[0].operands()[0], through_calls=())
            if role == "author":
                rec = f.origins(hp1.args[midx + 1], through_calls=())
                ok = "field:our_sk" in mo and "field:sk" in mo and "field:their_pk" in rec and "field:pk" in rec and hp1.name != "setup_recv"
            else:
                rec = f.origins(hp1.args[2], through_calls=())
                ok = "field:their_pk" in mo and "field:pk" in mo and "field:our_sk" in rec and "field:sk" in rec and hp1.name == "setup_recv"
        rep.check(ok, "%s|roles" % short(path), "K5 sibling agreement",
                  "%s side: Mode::Auth(%s), recipient key %s" % (role, "our sk" if role == "author" else "their pk", "their pk" if role == "author" else "our sk"),
                  "%s: HPKE roles are not the mirrored %s-side roles" % (short(path), role), hp1.site())
    rep.floor("uni key derivation functions", n, 5)
    # R3 handler
    H = "aranya_afc_util::handler::Handler::"
    for name, mine, theirs, variant in (("uni_channel_created", "seal_id", "open_id", "SealOnly"), ("uni_channel_received", "open_id", "seal_id", "OpenOnly")):
        f = F.fn(H + name)
        ag = [s for s in f.stmts() if s.rv_kind() == "agg" and s.rv[1].get("adt", "").endswith("uni::UniChannel")]
        ok = len(ag) == 1
        if ok:
            fl = ag[0].rv[1]["fields"]
            ops = dict(zip(fl, ag[0].operands()))
            mo = f.origins(ops[mine], through_calls=())
            to = f.origins(ops[theirs], through_calls=())
            ok = "field:device_id" in mo and "argname:self" in mo and "argname:effect" in to and ("field:" + theirs) in to
            po = f.origins(ops["parent_cmd_id"], through_calls=())
            lo = f.origins(ops["label_id"], through_calls=())
            ok = ok and "field:parent_cmd_id" in po and "field:label_id" in lo
        rep.check(ok, "%s|channel-roles" % name, "K6 provenance",
                  "%s builds UniChannel{%s: self.device_id, %s: effect.%s, parent_cmd_id/label_id from the effect}" % (name, mine, theirs, theirs),
                  "%s assigns the channel's device roles from the wrong source" % name, f.site())
        cmpc = [c for c in f.cmp_switches() if ("field:device_id" in f.origins(c["a"], through_calls=()) and ("field:" + theirs) in f.origins(c["b"], through_calls=()))
                or ("field:device_id" in f.origins(c["b"], through_calls=()) and ("field:" + theirs) in f.origins(c["a"], through_calls=()))]
        un = [c for c in f.calls if c.is_("UniKey::new")]
        ok = len(cmpc) == 1 and bool(un) and all(f.dominates(cmpc[0]["ne"], c.bb) for c in un) and bool(pat.err_aggs(f, "AuthorMustBeSealer"))
        rep.check(ok, "%s|rejects-own-other-end" % name, "K2 guarded-by",
                  "a key is built only when self.device_id != effect.%s; otherwise AuthorMustBeSealer" % theirs,
                  "%s no longer refuses a channel whose other end is this device" % name, f.site())
        ok = False
        if un:
            co = un[0].args[2]
            nm = None
            if co.const is not None:
                fnc = co.const.get("fn") or {}
                nm = fnc.get("path", "") or co.const.get("dbg", "")
            ok = nm is not None and nm.endswith(variant)
        rep.check(ok, "%s|key-direction" % name, "K7 table", "%s yields UniKey::%s" % (name, variant), site=f.site())


def short(p):
    return "::".join(p.split("::")[-2:])
