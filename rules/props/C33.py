"""C33 Shared text storage is memory safe across threads.

Decided (the reference-count protocol's shape in repr::arc; structural):
 R1 K8  the storage is released only in Drop::drop, only on the edge where
        strong.fetch_sub(1, Release-or-stronger) returned 1, and only after fence(Acquire-or-stronger)
        that follows the decrement; dealloc and drop_in_place have no other call site in the module.
 R2 K8  Clone increments with strong.fetch_add(1, _) on the same counter and guards overflow
        (the result is compared with MAX_REFCOUNT before the new handle is built).
 R3 K3  ArcStr{ptr} is constructed only in ArcStr::new (after allocate and after initialising
        strong = 1 and the bytes) and in Clone::clone (after the increment, copying self.ptr).
 R4 K3  no function hands out `&mut` to the shared data: raw writes through the pointer
        (ptr::write / copy_nonoverlapping / addr_of_mut) occur only in ArcStr::new, and no `&mut`
        reborrow of the pointee exists outside Drop.
Not decided: absence of data races under all interleavings (needs a memory model)."""
from rules.core import pat, atomics
from rules.core.facts import Operand, Place

CRATES = ["aranya_policy_text"]
A = "aranya_policy_text::repr::arc::"


def run(F, rep, tier):
    rep.explanation = __doc__
    fns = [f for f in F.fns if f.path.startswith(A) or ("repr::arc::" in f.path)]
    rep.floor("functions in repr::arc", len(fns), 6)
    drop = [f for f in fns if f.name == "drop" and f.trait and f.trait.endswith("ops::drop::Drop")]
    drop = pat.one(rep, drop, "Drop for ArcStr", fns[0])
    # release sites
    rel = []
    for f in fns:
        for c in f.calls:
            if c.is_("alloc::dealloc", "ptr::drop_in_place") or c.name in ("dealloc", "drop_in_place"):
                rel.append((f, c))
    rep.check(bool(rel) and all(f is drop for f, c in rel), "arc|release-only-in-drop", "K3 who-may-call",
              "dealloc / drop_in_place are called only in Drop::drop (%d sites)" % len(rel),
              "storage released outside Drop::drop: %s" % [f.path for f, c in rel if f is not drop])
    if drop:
        ops = atomics.atomic_ops(drop)
        subs = [o for o in ops if o.name == "fetch_sub" and "strong" in o.fields]
        ok = len(subs) == 1 and subs[0].const_values()[:1] == [1] and subs[0].orderings and subs[0].orderings[0] in atomics.STRONG_REL
        rep.check(ok, "drop|decrement", "K8 atomic protocol",
                  "strong.fetch_sub(1, %s)" % (subs[0].orderings if subs else None),
                  "Drop does not decrement `strong` by 1 with Release-or-stronger ordering: %s" % subs, drop.site())
        if subs:
            sub = subs[0]
            cs = [c for c in drop.cmp_switches() if (c["a"].place is not None and sub.call.dest.local in drop.backward_sources(c["a"].place.local)[0]) or
                  (c["b"].place is not None and sub.call.dest.local in drop.backward_sources(c["b"].place.local)[0])]
            ok = len(cs) == 1 and (cs[0]["a"].val == 1 or cs[0]["b"].val == 1) and cs[0]["op"] in ("Eq", "Ne")
            last_edge = cs[0]["eq"] if ok else None
            rep.check(ok and all(drop.dominates(last_edge, c.bb) for f, c in rel), "drop|free-only-when-last", "K8 atomic protocol",
                      "the release calls are dominated by the `fetch_sub(..) == 1` edge",
                      "Drop frees the storage without being the last owner (previous count != 1)", drop.site())
            fs = atomics.fences(drop)
            ok = len(fs) >= 1 and all(o in atomics.STRONG_ACQ for c, o in fs) and all(drop.dominates(sub.bb, c.bb) for c, o in fs) \
                and all(any(drop.dominates(c.bb, r.bb) for c, o in fs) for f, r in rel)
            rep.check(ok, "drop|acquire-fence-before-free", "K8 atomic protocol",
                      "fence(%s) follows the decrement and dominates the release" % [o for c, o in fs],
                      "Drop frees the storage without an Acquire fence after the decrement", drop.site())
    clone = [f for f in fns if f.name == "clone" and f.trait and f.trait.endswith("clone::Clone")]
    clone = pat.one(rep, clone, "Clone for ArcStr", fns[0])
    if clone:
        ops = atomics.atomic_ops(clone)
        adds = [o for o in ops if o.name == "fetch_add" and "strong" in o.fields]
        ok = len(adds) == 1 and adds[0].const_values()[:1] == [1] and len(ops) == 1
        rep.check(ok, "clone|increment", "K8 atomic protocol", "strong.fetch_add(1, %s) is the only atomic op in clone" % (adds[0].orderings if adds else None), site=clone.site())
        ag = [s for s in clone.stmts() if s.rv_kind() == "agg" and s.rv[1].get("adt", "").endswith("arc::ArcStr")]
        ok = len(ag) == 1 and bool(adds)
        if ok:
            guard = [c for c in clone.cmp_switches() if any(o.const is not None and (o.const.get("def") or "").endswith("MAX_REFCOUNT") or (o.val is not None and o.val == 9223372036854775807) for o in (c["a"], c["b"]))]
            ok = len(guard) == 1 and clone.dominates(adds[0].bb, ag[0].bb) and clone.dominates(guard[0]["t"] if guard[0]["op"] in ("Le", "Lt") else guard[0]["f"], ag[0].bb)
            po = clone.origins(ag[0].operands()[0], through_calls=())
            ok = ok and "field:ptr" in po and "argname:self" in po
        rep.check(ok, "clone|overflow-guard-and-same-pointer", "K8 atomic protocol",
                  "the new handle copies self.ptr and is built only after the increment and the MAX_REFCOUNT check", site=clone.site())
    # R3 constructors
    ctors = {}
    for f in fns:
        for s in f.stmts():
            if s.rv_kind() == "agg" and s.rv[1].get("adt", "").endswith("arc::ArcStr"):
                ctors.setdefault(f.path, []).append(s)
    allowed = {A + "ArcStr::new", clone.path if clone else ""}
    rep.check(set(ctors) <= allowed and (A + "ArcStr::new") in ctors, "ArcStr|constructors", "K3 who-may-construct",
              "ArcStr{ptr} is built only in new and clone: %s" % sorted(ctors), "ArcStr constructed elsewhere: %s" % sorted(set(ctors) - allowed))
    new = F.fn(A + "ArcStr::new")
    al = [c for c in new.calls if c.name == "allocate"]
    wr = [c for c in new.calls if c.is_("ptr::write") or c.name == "write"]
    cp = [c for c in new.calls if c.name == "copy_nonoverlapping"] + [s for s in new.stmts() if s.kind == "intrinsic"]
    an = [c for c in new.calls if c.is_("Atomic::new") or (c.name == "new" and "atomic" in (c.path or ""))]
    ag = ctors.get(A + "ArcStr::new", [])
    ok = len(al) == 1 and bool(wr) and bool(cp) and bool(ag) and bool(an)
    if ok:
        ok = an[0].args[0].val == 1
        for x in wr + [c for c in cp if hasattr(c, "bb")]:
            ok = ok and new.dominates(al[0].bb, x.bb) and all(new.dominates(x.bb, s.bb) for s in ag)
    rep.check(ok, "new|initialised-before-published", "K1 must-pass-through",
              "new: allocate -> write strong = 1 -> copy bytes -> build the handle", site=new.site())
    # R4 raw writes / &mut
    writers = set()
    for f in fns:
        for c in f.calls:
            if c.name in ("write", "copy_nonoverlapping", "write_bytes", "copy", "as_mut") and ("ptr" in (c.path or "") or "NonNull" in (c.path or "")):
                writers.add(f.path)
        for s in f.stmts():
            if s.kind == "intrinsic":
                writers.add(f.path)
            if s.rv_kind() in ("ref", "rawptr") and (s.rv[1] == "mut" or "Mut" in str(s.rv[1])):
                p = Place(s.rv[2])
                if p.proj and p.proj[0][0] == "d" and ("ArcStrInner" in f.local_ty(p.local)) and (f.local_ty(p.local).startswith("*") or "NonNull" in f.local_ty(p.local)):
                    writers.add(f.path)
    ok = writers <= {A + "ArcStr::new"}
    rep.check(ok, "arc|raw-writes-only-in-new", "K3 who-may-write",
              "raw writes / mutable reborrows of the shared allocation occur only in ArcStr::new (found %s)" % sorted(writers),
              "the shared string is written or mutably borrowed outside ArcStr::new: %s" % sorted(writers - {A + "ArcStr::new"}))
    pubs = [f for f in fns if f.vis == "pub" and not f.trait and f.kind == "AssocFn"]
    mutret = [f.path for f in pubs if f.local_ty(0).startswith("&mut")]
    rep.check(not mutret, "arc|no-mut-accessor", "K10 type fact", "no public function of the module returns `&mut` (%d public fns)" % len(pubs))
