"""C02 Every command is applied once, after its ancestors.

Decided (clause 3 only: merge commands are never evaluated by the policy; structural):
 R1 K2  braiding::braid: the in-loop braid.push(strand.next) is reachable only on the non-Merge edge
        of the test on the popped strand's `prior` (a strand that starts at a merge command is
        traversed but not emitted).
 R2 K1  evaluate_braid: the first yielded location only seeds storage.get_fact_perspective and
        never reaches call_rule; there is exactly one call_rule site, fed by get_command of the
        location produced by the loop's iter.next(); every iteration that yields a location reaches
        call_rule (no bypass back to the loop head).
 R3 K2  backstop: VmPolicy::call_rule returns a Bug on Prior::Merge before touching facts or sink.
 R4 K1  convergence map: Block::insert maintains both bounds of the block's max_cut range on every
        insert (a spilled block is looked up through that range).
 R5 K6  spill offsets come from an append-only allocation cursor (advanced by the bytes written,
        written nowhere else), the same value goes into the root entry's file_offset.
 R6 K1  every braid starts from an empty strand heap (StrandHeap::clear empties heap and flag; braid()
        takes the heap through the clearing accessor).
Not decided: exactly-once and ancestor-first on arbitrary DAGs and spill paths (value-level:
depends on convergence counts and skip-list contents)."""
from rules.core import pat, rt
from rules.core.facts import Operand, PASS_THROUGH

CRATES = ["aranya_runtime"]
THOROUGH_CONFIGS = ["lowmem"]   # thorough tier: the same rules on the low-mem-usage build


def run(F, rep, tier):
    rep.explanation = __doc__
    br = F.fn("aranya_runtime::client::braiding::braid")
    pushes = [c for c in br.calls if c.name == "push" and "BraidResult" in (c.path or "")]
    rep.floor("braid.push sites", len(pushes), 2)
    pops = [c for c in br.calls if c.is_(rt.SH + "StrandHeap::pop")]
    lones = [c for c in br.calls if c.is_(rt.SH + "StrandHeap::lone")]
    sws = [x for x in br.discr_switches("prior::Prior") if "Merge" in x[1]]
    # the switch that implements matches!(prior, Prior::Merge(..))
    msw = None
    for x in sws:
        t, others = br.variant_edge(x, "Merge")
        if t != x[1]["Merge"]:
            msw = (x, t, others)
    if not pops or not lones or msw is None:
        rep.anchor_missing("braid: strands.pop / strands.lone / matches!(prior, Merge) not found")
    else:
        x, merge_t, nonmerge = msw
        inloop = [c for c in pushes if "call:pop" in br.origins(c.args[1], through_calls=()) or not any(br.dominates(pat.ok_edge(br, l)[1] if pat.ok_edge(br, l) else l.bb, c.bb) for l in lones)]
        # classify by dominance: the lone push is dominated by the Some edge of lone()
        lone_some = br.outcome_edges(lones[0]).get("Some")
        inloop = [c for c in pushes if not (lone_some and br.dominates(lone_some[1], c.bb))]
        rep.floor("in-loop braid.push", len(inloop), 1)
        for c in inloop:
            ok = all(br.dominates(t, c.bb) for t in nonmerge[:1]) and c.bb not in br.reachable(merge_t, cut_blocks={x[0]} | set(nonmerge))
            # weaker but exact: not reachable from the Merge edge without going round the loop (through pop)
            ok = c.bb not in br.reachable(merge_t, cut_blocks={p.bb for p in pops})
            rep.check(ok, "braid|merge-not-emitted", "K2 guarded-by",
                      "the in-loop braid.push(strand.next) is not reachable from the Prior::Merge edge within an iteration",
                      "braid() emits a strand whose prior is a merge: merge commands would be handed to the policy", c.site())
            rep.check(br.dominates(x[0], c.bb), "braid|push-after-prior-test", "K1 must-pass-through", "the push is dominated by the prior test", site=c.site())
    ev = F.fn(rt.TX + "evaluate_braid")
    crs = pat.trait_calls(ev, "policy::Policy", "call_rule")
    cr = pat.one(rep, crs, "call_rule in evaluate_braid", ev)
    gfp = pat.one(rep, pat.trait_calls(ev, "storage::Storage", "get_fact_perspective"), "get_fact_perspective", ev)
    nexts = [c for c in ev.calls if c.is_("Iterator::next")]
    rep.floor("iter.next() sites in evaluate_braid", len(nexts), 2)
    if cr and gfp and len(nexts) >= 2:
        first = [n for n in nexts if ev.dominates(n.bb, gfp.bb)]
        loop = [n for n in nexts if not ev.dominates(n.bb, gfp.bb)]
        ok = len(first) == 1 and len(loop) == 1
        if ok:
            seed = ev.backward_sources(gfp.args[1].place.local, through_calls=PASS_THROUGH + ("BugExt::assume", "Option::transpose"))[1]
            ok = any(k == "call" and c is first[0] for k, c in seed) and not any(k == "call" and c is loop[0] for k, c in seed)
            gc = [c for c in ev.calls if c.name == "get_command"]
            cmd_src = ev.backward_sources(cr.args[1].place.local, through_calls="*", max_depth=60)[1]
            ok = ok and bool(gc) and any(k == "call" and c is loop[0] for k, c in cmd_src) and not any(k == "call" and c is first[0] for k, c in cmd_src)
        rep.check(ok, "evaluate_braid|base-not-evaluated", "K6 provenance",
                  "the first braid location seeds get_fact_perspective only; call_rule's command comes from the loop's next()",
                  "evaluate_braid evaluates the base location or seeds the perspective from the wrong element", ev.site())
        if loop:
            # from the Some edge of the loop's next, the loop head is not reachable again without call_rule
            lh = loop[0]
            al = ev.forward_aliases(lh.dest.local, through_calls=PASS_THROUGH + ("Option::transpose",))
            some_t = None
            for s in ev.stmts():
                if s.rv_kind() == "discr" and s.rv[2] and s.rv[2].endswith("option::Option"):
                    from rules.core.facts import Place
                    if Place(s.rv[1]).local in al:
                        for b in range(ev.nblocks):
                            sw = ev.switch_on(b)
                            if sw and sw[0].place is not None and sw[0].place.local == s.place.local:
                                some_t = sw[1].get(1, sw[2])
            ok = some_t is not None and lh.bb not in ev.reachable(some_t, cut_blocks={cr.bb})
            rep.check(ok, "evaluate_braid|no-bypass", "K1 must-pass-through",
                      "every yielded location reaches call_rule before the next iteration", site=ev.site())
    # R3
    g = [x for x in F.fns if x.name == "call_rule" and x.trait and x.trait.endswith("policy::Policy") and x.self_adt and x.self_adt.endswith("vm_policy::VmPolicy")]
    g = pat.one(rep, g, "VmPolicy::call_rule", ev)
    if g:
        sw = [x for x in g.discr_switches("prior::Prior") if "Merge" in x[1]]
        ok = False
        if sw:
            mt = sw[0][1]["Merge"]
            reg = g.reachable(mt)
            bugs = [c for c in g.calls if c.bb in reg and c.is_("Bug::new")]
            touching = [c for c in g.calls if c.bb in reg and (c.name in ("open_command", "evaluate_rule", "deserialize_struct", "call_command_policy") or (c.trait and c.trait.endswith("policy::Sink")))]
            ok = bool(bugs) and not touching
        rep.check(ok, "VmPolicy::call_rule|merge-is-bug", "K2 guarded-by",
                  "a Prior::Merge command returns a Bug before any open/evaluation/sink call", site=g.site())
    block_summary_rule(F, rep)
    rt.rule_strand_heap_reset(F, rep)


def block_summary_rule(F, rep):
    """R4: a spilled block's [min, max] max_cut range covers every entry: both bounds are maintained on
    every insert (the root index skips a block whose range excludes the location, so an entry outside
    its block's recorded range is never found again and its fork point is braided twice)."""
    ins = F.fn("aranya_runtime::client::convergence_map::Block::insert")
    push = [c for c in ins.calls if c.name == "push"]
    if len(push) != 1:
        rep.anchor_missing("Block::insert: one push of the entry")
        return
    for fld in ("min_max_cut", "max_max_cut"):
        stores = ins.field_stores(fld)
        cmps = [c for c in ins.cmp_switches() if "field:%s" % fld in (ins.origins(c["a"], through_calls=()) | ins.origins(c["b"], through_calls=()))]
        uncond = [s for s in stores if ins.dominates(s.bb, push[0].bb)]
        guarded = [c for c in cmps if ins.dominates(c["bb"], push[0].bb) and any(ins.dominates(t, s.bb) for s in stores for t in (c.get("t"), c.get("f")) if t is not None)]
        rep.check(bool(stores) and (bool(uncond) or bool(guarded)), "Block::insert|maintains-%s" % fld, "K1 must-pass-through",
                  "every insert either stores `%s` or compares the entry against it (and stores on that comparison's edge) before the push" % fld,
                  "Block::insert does not maintain `%s` on every path (its comparison is skipped on some path to the push): a block's recorded max_cut range "
                  "can exclude one of its entries, the root index then never finds that convergence point after a spill" % fld, ins.site())
    spill_offset_rule(F, rep)


def spill_offset_rule(F, rep):
    """R5: spilled convergence blocks never overwrite one another: the file offset a block is written at (and
    recorded in the root index) comes from an allocation cursor kept in the map, which only ever advances by the
    bytes just written. (Root entries are swap-removed when a block is reloaded, so an offset derived from the
    root's current length reuses a slot that a live entry still points to.)"""
    CM = "aranya_runtime::client::convergence_map::ConvergenceMap::"
    f = F.fn(CM + "spill_lru")
    wr = [c for c in f.calls if c.name == "write_at"]
    node = [s for s in f.stmts() if s.rv_kind() == "agg" and s.rv[1].get("adt", "").endswith("NodeEntry")]
    if len(wr) != 1 or len(node) != 1:
        rep.anchor_missing("spill_lru: one write_at and one NodeEntry")
        return
    og = f.origins(wr[0].args[1], through_calls="*")
    flds = {t[6:] for t in og if t.startswith("field:")} - {"storage", "root", "blocks", "entries", "0", "1"}
    cursor = sorted(flds)
    flds_n = node[0].rv[1]["fields"]
    og_n = f.origins(node[0].operands()[flds_n.index("file_offset")], through_calls="*") if "file_offset" in flds_n else set()
    ok = len(cursor) == 1 and "call:len" not in og and "field:root" not in og and ("field:" + cursor[0]) in og_n
    adv = False
    only = False
    if ok:
        st = f.field_stores(cursor[0])
        for s in st:
            o = f.origins(s.operands()[0], through_calls="*") if s.operands() else set()
            if ("call:checked_add" in o or "call:saturating_add" in o) and ("field:" + cursor[0]) in o and f.dominates(wr[0].bb, s.bb):
                adv = True
        writers = {g.path for g in F.fns if not g.derived and g.field_stores(cursor[0]) and "convergence_map" in g.path}
        only = writers <= {f.path}
    rep.check(ok and adv and only, "spill_lru|append-only-offsets", "K6 provenance",
              "the spill offset is the map's allocation cursor `%s`, written to the root entry as file_offset and advanced by checked_add after the write; nothing else writes it" % (cursor[0] if cursor else "?"),
              "ConvergenceMap::spill_lru no longer takes the spill offset from an allocation cursor that only advances (offset derives from %s): root entries are removed when blocks are "
              "reloaded, so an offset computed from the root's state can land on a slot a live entry still owns; its convergence points are lost and their fork is braided twice" % sorted(og), wr[0].site())
