"""C20 Peer caches only record what the peer really has.

Decided (structural):
 R1 K10 PeerCache.heads is a heapless Vec with capacity PEER_HEAD_MAX and PEER_HEAD_MAX == 10.
 R2 K3  the field is mutated only inside PeerCache::add_command (retain, push) and built empty in
        PeerCache::new / Default.
 R3 K2  the push of the new entry is dominated by the `Some` edge of storage.get_location(addr)
        (committed locally) and by the `add_command == true` edge; the entry's segment comes from
        that location, id and max_cut from the address.
 R4 K2  in the retain predicate an existing entry is dropped (Ok(false)) only on the true edge of
        is_ancestor(old, new); the new command is suppressed (add_command = false) only on
        `old.id == new.id` or the true edge of is_ancestor(new, old).
 R5 K3  inside add_command the only operations applied to a mutable borrow of `heads` are
        `retain` (whose predicate R4 checks) and `push` (which cannot remove): no other call that
        could remove or overwrite an entry (iter_mut, index_mut, swap_remove, pop, clear, ...) and no
        store through the borrow. A further mutator cannot be shown to spare non-ancestors, so the
        rule fails closed on it.
 R6 K2  an existing entry is kept beside the new command only on the false edge of
        is_ancestor(old, new): no cheaper pre-test may bypass it.
Not decided: the antichain invariant over all sequences (value-level)."""
from rules.core import pat
from rules.core.facts import Operand, Place, PASS_THROUGH

CRATES = ["aranya_runtime"]
THOROUGH_CONFIGS = ["lowmem"]   # thorough tier: the same rules on the low-mem-usage build
P = "aranya_runtime::sync::responder::PeerCache"


def run(F, rep, tier):
    rep.explanation = __doc__
    adt = F.adt(P)
    fld = [x for x in adt["variants"][0]["fields"] if x["name"] == "heads"]
    cap = F.consts.get("aranya_runtime::sync::PEER_HEAD_MAX", {}).get("val")
    ok = bool(fld) and "heapless" in fld[0]["ty"] and ("PEER_HEAD_MAX" in fld[0]["ty"] or ", 10" in fld[0]["ty"])
    rep.check(ok and cap == 10, "PeerCache|capacity", "K10 type fact",
              "heads: %s with PEER_HEAD_MAX = %s" % (fld[0]["ty"][:80] if fld else "?", cap),
              "PeerCache.heads is not a heapless Vec bounded by PEER_HEAD_MAX == 10 (type %s, const %s)" % (fld[0]["ty"] if fld else None, cap))
    # R2 writers
    writers = set()
    for f in F.fns:
        if f.derived:
            continue
        for s in f.stmts():
            if s.rv_kind() == "ref" and s.rv[1] == "mut":
                p = Place(s.rv[2])
                if "heads" in p.fields() and "PeerCache" in f.local_ty(p.local):
                    writers.add(f.root or f.path)
            if s.place is not None and s.place.last_field() == "heads" and s.place.proj[-1][0] == "f" and "PeerCache" in f.local_ty(s.place.local):
                writers.add(f.root or f.path)
            if s.rv_kind() == "agg" and s.rv[1].get("adt", "").endswith("responder::PeerCache"):
                writers.add(f.root or f.path)
    allowed = {P + "::add_command", P + "::new"}
    rep.check(writers <= allowed and (P + "::add_command") in writers, "PeerCache|writers", "K3 who-may-write",
              "PeerCache.heads is written only by add_command / new: %s" % sorted(writers),
              "PeerCache.heads is mutated outside add_command: %s" % sorted(writers - allowed))
    f = F.fn(P + "::add_command")
    gl = pat.one(rep, pat.trait_calls(f, "storage::Storage", "get_location"), "get_location", f)
    push = pat.one(rep, [c for c in f.calls if c.name == "push" and f.derives_from_field(c.args[0], "heads")], "heads.push", f)
    if gl and push:
        oe = f.outcome_edges(gl)
        some_ok = "Some" in oe and f.dominates(oe["Some"][1], push.bb)
        rep.check(some_ok, "add_command|committed-guard", "K2 guarded-by",
                  "heads.push(new) is dominated by the Some edge of storage.get_location(addr)",
                  "PeerCache::add_command records a command that is not committed locally", push.site())
        # add_command flag
        flag = None
        for b in range(f.nblocks):
            sw = f.switch_on(b)
            if sw and sw[0].place is not None and f.local_name(sw[0].place.local) == "add_command":
                flag = (b, sw[1].get(0), sw[2])
            elif sw and sw[0].place is not None:
                for k, d in f.defs().get(sw[0].place.local, []):
                    if k == "stmt" and d.rv_kind() == "use" and Operand(d.rv[1]).place is not None and f.local_name(Operand(d.rv[1]).place.local) == "add_command":
                        flag = (b, sw[1].get(0), sw[2])
        rep.check(flag is not None and f.dominates(flag[2], push.bb) and push.bb not in f.reachable(flag[1], cut_blocks={flag[0]}), "add_command|flag-guard", "K2 guarded-by",
                  "heads.push(new) only on the add_command == true edge", site=push.site())
        # retain happens before push
        ret = [c for c in f.calls if c.name == "retain"]
        rep.check(bool(ret) and all(f.dominates(c.bb, push.bb) for c in ret), "add_command|retain-before-push", "K1 must-pass-through",
                  "existing entries are filtered before the new one is pushed", site=f.site())
        # provenance of `new`
        ag = [s for s in f.stmts() if s.rv_kind() == "agg" and s.rv[1].get("adt", "").endswith("storage::LocatedAddress")]
        ok = False
        if len(ag) == 1:
            flds = ag[0].rv[1]["fields"]
            ops = ag[0].operands()
            seg = f.origins(ops[flds.index("segment")], through_calls=PASS_THROUGH)
            idd = f.origins(ops[flds.index("id")], through_calls=())
            mc = f.origins(ops[flds.index("max_cut")], through_calls=())
            ok = "call:get_location" in seg and "field:segment" in seg and "argname:addr" in idd and "field:id" in idd and "argname:addr" in mc and "field:max_cut" in mc
        rep.check(ok, "add_command|entry-provenance", "K6 provenance",
                  "new = {id: addr.id, segment: <location from get_location>.segment, max_cut: addr.max_cut}", site=f.site())
    # R5 mutators of heads inside add_command
    muts = []
    stores = []
    for fn in [f] + list(F.closures_of(f)):
        for st in fn.stmts():
            if st.rv_kind() == "ref" and st.rv[1] == "mut":
                pl = Place(st.rv[2])
                if "heads" in pl.fields():
                    al = fn.forward_aliases(st.place.local)
                    for c in fn.calls:
                        if any(a.place is not None and a.place.local in al for a in c.args):
                            muts.append((c.name, c.site()))
                    for s2 in fn.stmts():
                        if s2.place is not None and s2.place.proj and s2.place.local in al and s2.place.proj[0][0] == "d":
                            stores.append("%s:%d" % (fn.file, s2.line))
    bad = sorted({"%s at %s" % m for m in muts if m[0] not in ("retain", "push")} | {"store at %s" % x for x in stores})
    rep.check(not bad and {m[0] for m in muts} >= {"retain", "push"}, "add_command|heads-mutators", "K3 who-may-call",
              "the mutable borrows of heads in add_command feed only retain and push (%d sites)" % len(muts),
              "PeerCache::add_command mutates heads through an operation other than retain/push, which can remove or overwrite an entry that is not an ancestor of the recorded command: %s" % ", ".join(bad), f.site())
    # R4 closure
    cls = [c for c in F.closures_of(f) if any(x.name == "is_ancestor" for x in c.calls)]
    cl = pat.one(rep, cls, "retain predicate closure", f)
    if cl:
        ia = [c for c in cl.calls if c.name == "is_ancestor"]
        rep.floor("is_ancestor tests in the retain predicate", len(ia), 2)
        new_old = [c for c in ia if "upvar:new" in cl.origins(c.args[1]) and "arg:2" in cl.origins(c.args[2]) and "arg:2" not in cl.origins(c.args[1])]
        old_new = [c for c in ia if "arg:2" in cl.origins(c.args[1]) and "upvar:new" in cl.origins(c.args[2]) and "upvar:new" not in cl.origins(c.args[1])]
        rets = [s for s in cl.stmts() if s.rv_kind() == "agg" and s.rv[1].get("variant") == "Ok" and s.place.local == 0]
        drops = [s for s in rets if s.operands() and s.operands()[0].val == 0]
        keeps = [s for s in rets if s.operands() and s.operands()[0].val == 1]
        ok = len(old_new) == 1 and bool(drops)
        if ok:
            oe = cl.outcome_edges(old_new[0])
            ok = "payload_true" in oe and all(cl.dominates(oe["payload_true"][1], s.bb) for s in drops)
        rep.check(ok, "retain|drop-only-ancestors", "K2 guarded-by",
                  "an existing entry is dropped only on the true edge of is_ancestor(old, new)",
                  "PeerCache::add_command can drop an entry that is not an ancestor of the new command", cl.site())
        # add_command = false
        st = [s for s in cl.stmts() if s.place is not None and s.place.proj and s.rv_kind() == "use" and Operand(s.rv[1]).val == 0
              and any("upvar:add_command" in cl.origins(Operand(["c", {"l": s.place.local, "p": []}])) for _ in [0])]
        ideq = [c for c in cl.cmp_switches() if ("field:id" in cl.origins(c["a"]) and "field:id" in cl.origins(c["b"]))]
        ok = len(new_old) == 1 and bool(st) and len(ideq) >= 1
        if ok:
            oe = cl.outcome_edges(new_old[0])
            cut = {(ideq[0]["bb"], ideq[0]["eq"])}
            if "payload_true" in oe:
                cut.add(oe["payload_true"])
            r = cl.reachable(0, cut_edges=cut)
            ok = "payload_true" in oe and not any(s.bb in r for s in st)
        # R6 the antichain: an entry is kept *next to* the new one only after is_ancestor(old, new) answered false
        okk = len(old_new) == 1 and bool(keeps)
        if okk:
            oe2 = cl.outcome_edges(old_new[0])
            pf = oe2.get("payload_false")
            for k in keeps:
                cleared = any(cl.dominates(s_.bb, k.bb) for s_ in st)
                okk = okk and (cleared or (pf is not None and cl.dominates(pf[1], k.bb)))
        rep.check(okk, "retain|keep-only-non-ancestors", "K2 guarded-by",
                  "an existing entry stays in the cache beside the new command only on the false edge of is_ancestor(old, new) (or when the new command is not added at all)",
                  "PeerCache::add_command can keep an existing entry and add the new command without having tested is_ancestor(old, new) on that path (a shortcut guards the test): "
                  "the cache can then hold an entry that is an ancestor of another", cl.site())
        rep.check(ok, "retain|suppress-only-descendants", "K2 guarded-by",
                  "add_command is cleared only when old.id == new.id or is_ancestor(new, old) holds",
                  "PeerCache::add_command suppresses the new command without it being an ancestor/duplicate of an existing entry", cl.site())
