"""C46 IDs round-trip through text and serde.

Decided (structural, format pairing):
 R1 K7  Serialize and Deserialize branch on is_human_readable() the same way: the true edge
        uses serialize_str(to_base58) / deserialize_str(visitor that parses base58), the false
        edge serialize_bytes(as_bytes) / deserialize_bytes(visitor taking exactly 32 bytes).
 R2 K2  visit_bytes converts with try_into and errors on a length mismatch; visit_seq errors
        when the sequence ends early; visit_str goes through FromStr.
 R3 K5  Display prints to_base58() unchanged (no trim/slice/replace in between); FromStr/decode use base58 String32::decode on the caller's text unchanged (no strip/trim/slice before it); to_base58 encodes
        the `bytes` field.
 R4 K4  no may-panic site reachable from FromStr / Deserialize / visitors / decode / Display.
Not decided: bijectivity of spideroak-base58's 32-byte codec (external, trusted)."""
from rules.core import k4
from rules.core.facts import PASS_THROUGH

CRATES = ["aranya_id"]


def one(F, trait_suffix, name):
    from rules.core.facts import MissingAnchor, path_match
    c = [f for f in F.fns if f.name == name and f.trait and path_match(f.trait, trait_suffix) and f.self_adt == "aranya_id::id::Id"]
    if len(c) != 1:
        raise MissingAnchor("impl %s::%s for Id: found %d" % (trait_suffix, name, len(c)))
    return c[0]


def run(F, rep, tier):
    rep.explanation = __doc__
    ser = one(F, "ser::Serialize", "serialize")
    de = one(F, "de::Deserialize", "deserialize")

    def hr_edges(f, trait_m):
        cs = [c for c in f.calls if c.name == "is_human_readable"]
        if len(cs) != 1:
            rep.anchor_missing("%s: expected one is_human_readable() call" % f.path)
            return None
        oe = f.outcome_edges(cs[0])
        if "true" not in oe:
            rep.anchor_missing("%s: is_human_readable() result not branched on" % f.path)
            return None
        return oe

    oe = hr_edges(ser, "ser")
    if oe:
        regT = ser.reachable(oe["true"][1], cut_blocks=set(ser.returns()))
        regF = ser.reachable(oe["false"][1], cut_blocks=set(ser.returns()))
        strs = [c for c in ser.calls if c.name == "serialize_str"]
        byts = [c for c in ser.calls if c.name == "serialize_bytes"]
        others = [c for c in ser.calls if (c.name or "").startswith("serialize_") and c.name not in ("serialize_str", "serialize_bytes")]
        rep.check(len(strs) == 1 and len(byts) == 1 and not others and strs[0].bb in regT and strs[0].bb not in regF
                  and byts[0].bb in regF and byts[0].bb not in regT, "Serialize|format-edges", "K7 table agreement",
                  "human-readable -> serialize_str, binary -> serialize_bytes", site=ser.site())
        if strs and byts:
            s_src = [x for k, x in ser.backward_sources(strs[0].args[1].place.local, through_calls="*")[1] if k == "call"]
            b_src = [x for k, x in ser.backward_sources(byts[0].args[1].place.local, through_calls="*")[1] if k == "call"]
            rep.check(any(x.name == "to_base58" for x in s_src), "Serialize|str-is-base58", "K6 provenance",
                      "the string serialized is to_base58(self)", site=strs[0].site())
            rep.check(any(x.name in ("as_bytes", "as_array") for x in b_src), "Serialize|bytes-are-id", "K6 provenance",
                      "the bytes serialized are self.as_bytes()", site=byts[0].site())
    oe = hr_edges(de, "de")
    if oe:
        regT = de.reachable(oe["true"][1], cut_blocks=set(de.returns()))
        regF = de.reachable(oe["false"][1], cut_blocks=set(de.returns()))
        strs = [c for c in de.calls if c.name == "deserialize_str"]
        byts = [c for c in de.calls if c.name == "deserialize_bytes"]
        others = [c for c in de.calls if (c.name or "").startswith("deserialize_") and c.name not in ("deserialize_str", "deserialize_bytes")]
        rep.check(len(strs) == 1 and len(byts) == 1 and not others and strs[0].bb in regT and strs[0].bb not in regF
                  and byts[0].bb in regF and byts[0].bb not in regT, "Deserialize|format-edges", "K7 table agreement",
                  "human-readable -> deserialize_str, binary -> deserialize_bytes (same polarity as Serialize)", site=de.site())
        if strs and byts:
            vs = de.local_ty(strs[0].args[1].place.local)
            vb = de.local_ty(byts[0].args[1].place.local)
            # the visitors
            vstr = [f for f in F.fns if f.trait and f.trait.endswith("de::Visitor") and f.self_ty and f.self_ty.split("<")[0] == vs.split("<")[0]]
            vbyt = [f for f in F.fns if f.trait and f.trait.endswith("de::Visitor") and f.self_ty and f.self_ty.split("<")[0] == vb.split("<")[0]]
            ms = {f.name: f for f in vstr}
            mb = {f.name: f for f in vbyt}
            rep.check("visit_str" in ms and any(c.is_("str::parse") for c in ms["visit_str"].calls), "Deserialize|str-visitor",
                      "K7 table agreement", "the text visitor parses the string with FromStr (base58)", site=de.site())
            rep.check("visit_bytes" in mb and "visit_seq" in mb, "Deserialize|bytes-visitor", "K7 table agreement",
                      "the binary visitor implements visit_bytes and visit_seq", site=de.site())
            if "visit_bytes" in mb:
                f = mb["visit_bytes"]
                ti = [c for c in f.calls if c.name == "try_into"]
                ok = False
                if len(ti) == 1:
                    o = f.outcome_edges(ti[0])
                    oks = [s for s in f.stmts() if s.rv_kind() == "agg" and s.rv[1].get("variant") == "Ok" and s.place.local == 0]
                    ok = "Continue" in o and oks and all(f.dominates(o["Continue"][1], s.bb) for s in oks) \
                        and "[u8; 32]" in (ti[0].gargs or "") + f.local_ty(ti[0].dest.local)
                rep.check(ok, "visit_bytes|length-check", "K2 guarded-by",
                          "Ok(id) only on the success edge of <&[u8]>::try_into::<[u8; 32]>()", site=f.site())
            if "visit_seq" in mb:
                f = mb["visit_seq"]
                ne = [c for c in f.calls if c.name == "next_element"]
                ok = False
                if len(ne) == 1:
                    o = f.outcome_edges(ne[0])
                    # after `?`, the Option is matched: None -> Err
                    al = f.forward_aliases(ne[0].dest.local, through_calls=PASS_THROUGH)
                    # find Option discriminant switch on Continue payload
                    none_err = False
                    for s in f.stmts():
                        if s.rv_kind() == "discr" and s.rv[2] and s.rv[2].endswith("option::Option"):
                            for b in range(f.nblocks):
                                sw = f.switch_on(b)
                                if sw and sw[0].place is not None and sw[0].place.local == s.place.local:
                                    arms, other = sw[1], sw[2]
                                    none_t = arms.get(0, other)
                                    reg = f.reachable(none_t)
                                    errs = [x for x in f.calls if x.name == "invalid_length" and x.bb in reg]
                                    loop_back = ne[0].bb in reg
                                    none_err = bool(errs) and not loop_back
                    ok = none_err
                rep.check(ok, "visit_seq|short-seq-errors", "K2 guarded-by",
                          "a sequence that ends early (None) returns invalid_length and does not continue the loop", site=f.site())
    # R3
    disp = one(F, "fmt::Display", "fmt")
    rep.check(any(c.name == "to_base58" for c in disp.calls), "Display|base58", "K5 sibling agreement", "Display prints to_base58()", site=disp.site())
    # ... unchanged: between to_base58() and the formatter there is no call that rewrites the text (trim, strip,
    # replace, slice, case change, truncate): every character of the 32-byte encoding is a significant digit
    PLUMBING = {"to_base58", "new", "new_display", "new_debug", "new_v1", "new_const", "write_fmt", "write_str", "fmt", "deref", "as_str", "as_ref", "borrow", "from", "into",
                "pad", "to_string", "as_bytes", "from_utf8_unchecked", "from_utf8", "unwrap", "expect", "branch"}
    rewrites = sorted({c.name for c in disp.calls if c.name and c.name not in PLUMBING and not c.exp
                       and (c.path or "").startswith(("core::str", "alloc::str", "alloc::string", "core::slice", "alloc::vec", "core::ops::index"))})
    rep.check(not rewrites, "Display|prints-the-whole-encoding", "K5 sibling agreement",
              "Display writes to_base58()'s text as it is",
              "Display for Id rewrites the base58 text before printing it (%s): the printed text no longer decodes to the same id (FromStr / the human-readable serde visitor parse it)" % ", ".join(rewrites),
              disp.site())
    fs = one(F, "FromStr", "from_str")
    dec = F.fn("aranya_id::id::Id::decode")
    rep.check(any(c.is_("Id::decode") for c in fs.calls), "FromStr|decode", "K5 sibling agreement", "FromStr delegates to Id::decode", site=fs.site())
    rep.check(any(c.is_("String32::decode") for c in dec.calls) and any(c.is_("Id::from_bytes") for c in dec.calls),
              "decode|String32", "K5 sibling agreement", "decode = String32::decode then from_bytes", site=dec.site())
    # ... and the text handed to the decoder is the caller's text as it is (mirror of the Display rule): in base58 every
    # character, the leading ones included, is a significant digit
    drew = sorted({c.name for c in dec.calls if c.name and c.name not in PLUMBING and not c.exp
                   and (c.path or "").startswith(("core::str", "alloc::str", "alloc::string", "core::slice", "alloc::vec", "core::ops::index"))})
    sd = [c for c in dec.calls if c.is_("String32::decode")]
    arg_ok = bool(sd) and "arg:1" in dec.origins(sd[0].args[0], through_calls=("as_ref", "borrow", "as_bytes", "deref"))
    rep.check(not drew and arg_ok, "decode|decodes-the-whole-text", "K5 sibling agreement",
              "Id::decode hands its argument to String32::decode as it is",
              "Id::decode rewrites the text before decoding it (%s): text that is not what Display prints then parses to an id it does not encode "
              "(e.g. a stripped leading `z` is the base58 digit 57)" % (", ".join(drew) or "argument is not the caller's text"), dec.site())
    tb = one(F, "ToBase58", "to_base58")
    ok = False
    for c in tb.calls:
        if c.name == "to_base58":
            for k, d in tb.backward_sources(c.args[0].place.local)[1]:
                if k == "stmt" and any(p.last_field() == "bytes" for p in d.src_places()):
                    ok = True
    rep.check(ok, "to_base58|bytes", "K6 provenance", "to_base58 encodes self.bytes", site=tb.site())
    # R4
    entries = [fs, de, dec, disp, tb] + [f for f in F.fns if f.trait and f.trait.endswith("de::Visitor") and "aranya_id::id" in f.path]
    rep.floor("K4 entries", len(entries), 9)
    k4.run_k4(F, rep, entries, {}, {})
