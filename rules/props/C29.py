"""C29 Fact queries in policies match a fact-store model.

Decided (structural):
 R1 K5  sibling consumers: every VM instruction that consumes MachineIO::fact_query results to expose
        them to the policy - Query, FactCount, and QueryStart/QueryNext (`map`) - applies fact_match
        with the query literal before a result is pushed, bound or counted; QueryStart keeps the
        literal next to the iterator. Update is listed separately: it compares the found values
        with the literal itself and errors on mismatch.
 R2 K7  key codec agreement in the runtime's VmPolicyIO: KeyType::from_u8 maps each discriminant back
        to its own variant; ser_key and deser_key have an arm per key kind; Int/Enum use
        big-endian bytes with the sign bit flipped on both sides; the identifier is length-prefixed.
 R3 K2  FactCount: the counter is incremented only on the fact_match true edge and the loop asks for
        another fact only on the `count < limit` edge (the limit caps matches, not facts visited).
 R4 K1  Update = fact_query lookup -> compare -> fact_delete -> fact_insert, in that order.
 R5 K2  the committed fact index is a chain of layers: LinearFactIndex::query_prefix_inner returns its
        matches only on the no-prior-layer edge of the walk (a layer without facts of the queried name is
        skipped, not the end of the walk), errors aside.
Not decided: end-to-end equality with a model store over all fact sets (value-level)."""
from rules.core import pat
from rules.core.facts import Operand, PASS_THROUGH

CRATES = ["aranya_policy_vm", "aranya_policy_module", "aranya_runtime"]


def arm_bodies(F, f, region):
    """fns: the function restricted to region, plus closures created in region."""
    cls = []
    for s in f.stmts():
        if s.bb in region and s.rv_kind() == "agg" and s.rv[1].get("k") == "closure":
            from rules.core.facts import strip_generics
            g = F.fn_exact(strip_generics(s.rv[1]["def"]))
            if g:
                cls.append(g)
    return cls


def layer_walk_rule(F, rep):
    f = F.fn("aranya_runtime::storage::linear::LinearFactIndex::query_prefix_inner")
    oks = pat.ok_returns(f)
    sws = []
    for b, arms, other, dst in f.discr_switches("option::Option"):
        from rules.core.facts import Place
        src = Place(dst.rv[1])
        ty = f.local_ty(src.local)
        if not src.proj and "FactIndexRepr" in ty and "Option<&" in ty.replace(" ", ""):
            sws.append((b, arms, other))
    ok = len(sws) == 1 and bool(oks)
    if ok:
        b, arms, other = sws[0]
        none_t = arms.get("None", other)
        ok = "Some" in arms and all(pat.only_via_edge(f, (b, none_t), [s.bb]) for s in oks)
    rep.check(ok, "LinearFactIndex::query_prefix_inner|walks-every-layer", "K2 guarded-by",
              "the prefix query over the committed fact index returns Ok only from the `no prior layer` edge of its walk",
              "LinearFactIndex::query_prefix_inner can return its matches before the chain of index layers is exhausted (an exit other than the `prior == None` edge): "
              "facts stored under the queried name in older layers disappear from query / exists / count / map once a newer layer lacks that name", f.site())


def run(F, rep, tier):
    rep.explanation = __doc__
    layer_walk_rule(F, rep)
    step = F.fn("aranya_policy_vm::machine::RunState::step")
    sws = step.discr_switches("instructions::Instruction")
    outer = None
    for sw in sws:
        if all(step.dominates(sw[0], o[0]) for o in sws):
            outer = sw
    if outer is None:
        rep.anchor_missing("RunState::step dispatch")
        return
    b, arms, other, st = outer
    regions = {v: step.dominated_region(t) for v, t in arms.items()}
    consumers = {}
    for v, reg in regions.items():
        fq = [c for c in step.calls if c.bb in reg and c.name == "fact_query"]
        if fq:
            consumers[v] = fq
    rep.check(set(consumers) == {"Query", "FactCount", "QueryStart", "Update"}, "fact_query|consumers", "K5 sibling agreement",
              "instructions calling fact_query: %s" % sorted(consumers),
              "the set of instructions that query facts changed (%s): review each for the value filter" % sorted(consumers), step.site())

    def has_match(v):
        reg = regions[v]
        if any(c.bb in reg and c.is_("machine::fact_match") for c in step.calls):
            return True
        return any(any(c.is_("machine::fact_match") for c in g.calls) for g in arm_bodies(F, step, reg))
    for v in ("Query", "FactCount"):
        if v in regions:
            rep.check(has_match(v), "consumer|%s|applies-fact_match" % v, "K5 sibling agreement",
                      "Instruction::%s filters fact_query results with fact_match(literal, keys, values)" % v,
                      "Instruction::%s exposes fact_query results without applying the literal's value filter (fact_match)" % v, step.site())
    if "QueryNext" in regions and "QueryStart" in regions:
        rep.check(has_match("QueryNext"), "consumer|QueryNext|applies-fact_match", "K5 sibling agreement",
                  "QueryNext (map) skips results that do not fact_match the stored literal",
                  "QueryNext binds every fact under the key prefix: `map` ignores the literal's value fields", step.site())
        # QueryStart stores the literal with the iterator
        reg = regions["QueryStart"]
        push = [c for c in step.calls if c.bb in reg and c.name == "push" and "field:query_iter_stack" in step.origins(c.args[0], through_calls=())]
        ok = len(push) == 1
        if ok:
            ty = step.local_ty(push[0].args[1].place.local)
            ok = "Fact" in ty and ty.startswith("(")
        rep.check(ok, "consumer|QueryStart|keeps-literal", "K6 provenance", "QueryStart pushes (literal, iterator) onto query_iter_stack", site=step.site())
        # QueryNext: the pushed `false` (more results) only after a match
        regn = regions["QueryNext"]
        fm = [c for c in step.calls if c.bb in regn and c.is_("machine::fact_match")]
        somes = [s for s in step.stmts() if s.bb in regn and s.rv_kind() == "agg" and s.rv[1].get("variant") == "Some" and s.operands()
                 and s.operands()[0].place is not None and "FactKey" in step.local_ty(s.operands()[0].place.local)]
        sets = [c for c in step.calls if c.bb in regn and c.name == "set" and "scope" in (c.path or "")]
        ok = len(fm) == 1 and bool(sets) and bool(somes)
        if ok:
            oe = step.outcome_edges(fm[0])
            ok = "true" in oe and all(step.dominates(oe["true"][1], s.bb) for s in somes)
            # the bound struct is built from that Some payload
            nl = {s.place.local for s in somes}
            its = [c for c in step.calls if c.bb in regn and c.name == "into_iter" and c.args[0].place is not None
                   and step.backward_sources(c.args[0].place.local, through_calls=(), max_depth=20)[0] & nl]
            ok = ok and len(its) >= 2
        rep.check(ok, "consumer|QueryNext|bind-only-matches", "K2 guarded-by",
                  "the fact handed to the `as` binding is produced only on the fact_match true edge", site=step.site())
    # Update exception
    if "Update" in regions:
        reg = regions["Update"]
        calls = [c for c in step.calls if c.bb in reg]
        fq = [c for c in calls if c.name == "fact_query"]
        fd = [c for c in calls if c.name == "fact_delete"]
        fi = [c for c in calls if c.name == "fact_insert"]
        cmpv = [c for c in step.cmp_switches() if c["bb"] in reg and c["op"] in ("Eq", "Ne") and c.get("call") is not None]
        ok = len(fq) == 1 and len(fd) == 1 and len(fi) == 1 and bool(cmpv)
        if ok:
            ok = step.dominates(fq[0].bb, fd[0].bb) and step.dominates(fd[0].bb, fi[0].bb)
            e = pat.ok_edge(step, fd[0])
            ok = ok and e is not None and step.dominates(e[1], fi[0].bb)
            # mismatch edge -> error, never reaches delete
            ok = ok and any(fd[0].bb not in step.reachable(c["ne"], cut_blocks={c["bb"]}) for c in cmpv)
        rep.check(ok, "Update|lookup-compare-delete-insert", "K1 ordering",
                  "Update looks the fact up, compares its values with the literal (mismatch -> InvalidFact), then deletes, then inserts",
                  "Instruction::Update no longer does lookup -> compare -> delete -> insert", step.site())
    # R3 FactCount
    if "FactCount" in regions:
        reg = regions["FactCount"]
        fm = [c for c in step.calls if c.bb in reg and c.is_("machine::fact_match")]
        inc = [c for c in step.calls if c.bb in reg and c.name == "checked_add" and c.args[1].val == 1]
        nxt = [c for c in step.calls if c.bb in reg and c.is_("Iterator::next")]
        take = [c for c in step.calls if c.bb in reg and c.name in ("take", "take_while", "skip", "step_by")]
        guard = [c for c in step.cmp_switches() if c["bb"] in reg and c["op"] in ("Lt", "Ge", "Le", "Gt")]
        ok = len(fm) == 1 and len(inc) == 1 and len(nxt) == 1 and not take and len(guard) >= 1
        if ok:
            oe = step.outcome_edges(fm[0])
            ok = "true" in oe and step.dominates(oe["true"][1], inc[0].bb)
            g = guard[0]
            more = g["t"] if g["op"] in ("Lt", "Le") else g["f"]
            cl = set(step.locals_named("count"))
            ll = set(step.locals_named("limit"))
            a_src = step.backward_sources(g["a"].place.local)[0] if g["a"].place is not None else set()
            b_src = step.backward_sources(g["b"].place.local)[0] if g["b"].place is not None else set()
            ok = ok and step.dominates(more, nxt[0].bb) and g["op"] == "Lt" and bool(a_src & cl) and bool(b_src & ll)
        rep.check(ok, "FactCount|limit-caps-matches", "K2 guarded-by",
                  "the loop fetches another fact only while `count < limit`, and `count` grows only on a match",
                  "FactCount's limit no longer caps the number of *matching* facts (e.g. it caps facts visited)", step.site())
    # fact_match itself: prefix + every value field
    fm = F.fn("aranya_policy_vm::machine::fact_match")
    sw = [c for c in fm.calls if c.name == "starts_with"]
    itv = [c for c in fm.calls if c.name in ("into_iter", "iter")]
    rep.check(len(sw) == 1 and "field:keys" in fm.origins(sw[0].args[1], through_calls=("Deref::deref",)) and any("field:values" in fm.origins(c.args[0], through_calls=()) for c in itv),
              "fact_match|prefix-and-values", "K6 provenance", "fact_match = keys.starts_with(query.keys) && every query value field equals the fact's", site=fm.site())
    # R2 key codec
    kt = F.adt("aranya_runtime::vm_policy::io::KeyType")
    discr = {v["name"]: int(v["discr"]) for v in kt["variants"]}
    fu = F.fn("aranya_runtime::vm_policy::io::KeyType::from_u8")
    swb = None
    for bb in range(fu.nblocks):
        s = fu.switch_on(bb)
        if s and s[0].place is not None and s[0].place.local == 1:
            swb = s
    table = {}
    if swb:
        for val, t in swb[1].items():
            reg = fu.dominated_region(t)
            vs = {s.rv[1].get("variant") for s in fu.stmts() if s.bb in reg and s.rv_kind() == "agg" and s.rv[1].get("adt", "").endswith("io::KeyType")}
            table[val] = sorted(vs)
    ok = swb is not None and all(table.get(d) == [n] for n, d in discr.items()) and len(table) == len(discr)
    rep.check(ok, "KeyType|tag-table", "K7 table agreement", "from_u8 inverts the discriminants: %s" % table,
              "KeyType::from_u8 does not invert `tag as u8`: %s vs %s" % (table, discr), fu.site())
    sk = F.fn("aranya_runtime::vm_policy::io::ser_key")
    dk = F.fn("aranya_runtime::vm_policy::io::deser_key")
    hv = [x for x in sk.discr_switches("HashableValue")]
    dt = [x for x in dk.discr_switches("io::KeyType")]
    ok = len(hv) == 1 and len(dt) == 1
    pairs = {"Int": "Int", "Bool": "Bool", "String": "String", "Id": "Id", "Enum": "Enum"}
    wt = {}
    rt = {}
    if ok:
        for v, t in hv[0][1].items():
            reg = sk.dominated_region(t)
            wt[v] = sorted({s.rv[1].get("variant") for s in sk.stmts() if s.bb in reg and s.rv_kind() == "agg" and s.rv[1].get("adt", "").endswith("io::KeyType")})
        for v, t in dt[0][1].items():
            reg = dk.dominated_region(t)
            rt[v] = sorted({s.rv[1].get("variant") for s in dk.stmts() if s.bb in reg and s.rv_kind() == "agg" and s.rv[1].get("adt", "").endswith("HashableValue")})
        ok = all(wt.get(v) == [pairs[v]] for v in pairs) and all(rt.get(v) == [v] for v in pairs)
    rep.check(ok, "key-codec|kind-table", "K7 table agreement", "writer: HashableValue::X -> tag X (%s); reader: tag X -> HashableValue::X (%s)" % (wt, rt),
              "ser_key/deser_key kind tables disagree: writer %s reader %s" % (wt, rt), sk.site())
    # sign flip + big endian on both sides
    def xors(f):
        return [s for s in f.stmts() if s.rv_kind() == "bin" and s.rv[1] == "BitXor"] + [c for c in f.calls if c.name == "bitxor"]
    sbe = [c for c in sk.calls if c.name == "to_be_bytes"]
    dbe = [c for c in dk.calls if c.name == "from_be_bytes"]
    sle = [c for c in sk.calls + dk.calls if c.name in ("to_le_bytes", "from_le_bytes", "to_ne_bytes", "from_ne_bytes")]
    rep.check(len(xors(sk)) == 2 and len(xors(dk)) == 2 and len(sbe) >= 3 and len(dbe) >= 3 and not sle, "key-codec|order-preserving-ints", "K5 sibling agreement",
              "Int and Enum keys are big-endian with the sign bit flipped on both sides (writer xors %d, reader xors %d)" % (len(xors(sk)), len(xors(dk))), site=sk.site())
