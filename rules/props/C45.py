"""C45 Key stores behave as maps.

Decided (the file-system store's entry protocol, structural; fs_keystore/store.rs):
 R1 K1  VacantEntry::insert: into_writer (Ok) -> fsync (Ok) -> dirty = true -> Ok; `dirty` is
        written nowhere else (constructed false in VacantEntry::new).
 R2 K2  Drop for VacantEntry unlinks the file exactly on the `!dirty` edge (a vacant entry dropped
        without a successful insert leaves nothing behind; a successful insert is never unlinked).
 R3 K1  OccupiedEntry::remove unlinks (Ok) before returning the stored key.
 R4 K2  Store::entry yields Entry::Vacant only from Exclusive::create_new (O_CREAT|O_EXCL) and
        Entry::Occupied only from a successful Exclusive::openat of the existing file;
        create_new passes CREATE and EXCL; both take the exclusive lock.
 R5 K7  MemStore delegates to the BTreeMap entry API (entry / get / insert / remove).
Not decided: map equivalence over all operation sequences; reopen equality (file-system semantics)."""
from rules.core import pat
from rules.core.facts import Operand, Place, PASS_THROUGH

CRATES = ["aranya_crypto"]
S = "aranya_crypto::keystore::fs_keystore::store::"


def impl_fn(F, adt, name):
    c = [f for f in F.fns if f.name == name and f.self_adt == S + adt and f.kind == "AssocFn"]
    if len(c) != 1:
        from rules.core.facts import MissingAnchor
        raise MissingAnchor("%s::%s: found %d" % (adt, name, len(c)))
    return c[0]


def run(F, rep, tier):
    rep.explanation = __doc__
    va = F.adt(S + "VacantEntry")
    if "dirty" not in [x["name"] for x in va["variants"][0]["fields"]]:
        rep.violation("VacantEntry|dirty-flag", "K1 must-pass-through",
                      "VacantEntry no longer records a successful insert in a `dirty` flag: Drop cannot tell a failed insert (file must be "
                      "unlinked) from a successful one by state the insert path controls", None)
        return
    ins = impl_fn(F, "VacantEntry", "insert")
    iw = [c for c in ins.calls if c.name == "into_writer"]
    fs = [c for c in ins.calls if c.is_(S + "Exclusive::fsync")]
    st = ins.field_stores("dirty")
    oks = pat.ok_returns(ins)
    ok = len(iw) == 1 and len(fs) == 1 and len(st) == 1 and bool(oks)
    if ok:
        e1, e2 = pat.ok_edge(ins, iw[0]), pat.ok_edge(ins, fs[0])
        ok = e1 and e2 and ins.dominates(e1[1], fs[0].bb) and ins.dominates(e2[1], st[0].bb) and Operand(st[0].rv[1]).val == 1 and all(ins.dominates(st[0].bb, s.bb) for s in oks)
        wo = ins.origins(iw[0].args[1], through_calls=())
        ok = ok and "field:fd" in wo
    rep.check(bool(ok), "insert|write-sync-then-dirty", "K1 must-pass-through",
              "into_writer Ok -> fsync Ok -> dirty = true -> Ok(())",
              "VacantEntry::insert marks the entry dirty (or returns Ok) before the key was written and synced", ins.site())
    writers = {}
    for f in F.fns:
        if not f.file.endswith("fs_keystore/store.rs") or f.derived:
            continue
        if f.field_stores("dirty"):
            writers[f.path] = "store"
        for s in f.stmts():
            if s.rv_kind() == "agg" and s.rv[1].get("adt", "").endswith("store::VacantEntry"):
                fl = s.rv[1]["fields"]
                v = s.operands()[fl.index("dirty")].val
                writers[f.path] = "ctor:dirty=%s" % v
    ok = writers == {ins.path: "store", S + "VacantEntry::new": "ctor:dirty=0"}
    rep.check(ok, "dirty|writers", "K3 who-may-write", "`dirty` is set only by insert and starts false in new: %s" % writers, "unexpected writers of VacantEntry.dirty: %s" % writers)
    dr = impl_fn(F, "VacantEntry", "drop")
    ul = [c for c in dr.calls if c.name == "unlinkat"]
    ok = len(ul) == 1
    if ok:
        # the branch on self.dirty
        sw = None
        for b in range(dr.nblocks):
            s = dr.switch_on(b)
            if s and s[0].place is not None:
                org = dr.origins(s[0], through_calls=("Not::not",))
                if "field:dirty" in org:
                    neg = any(st.rv_kind() == "un" and st.rv[1] == "Not" for k, st in dr.backward_sources(s[0].place.local)[1] if k == "stmt")
                    t, f_ = (s[2] if 0 in s[1] else s[1].get(1)), s[1].get(0, s[2])
                    clean = t if neg else f_      # edge on which dirty == false
                    dirty = f_ if neg else t
                    sw = (b, clean, dirty)
        ok = sw is not None and dr.dominates(sw[1], ul[0].bb) and ul[0].bb not in dr.reachable(sw[2], cut_blocks={sw[0]})
        ao = dr.origins(ul[0].args[1], through_calls="*")
        ok = ok and "field:alias" in ao
    rep.check(bool(ok), "VacantEntry::drop|unlink-iff-clean", "K2 guarded-by",
              "the file is unlinked exactly on the `dirty == false` edge, by its own alias",
              "Drop for VacantEntry does not unlink exactly when no insert succeeded", dr.site())
    rm = impl_fn(F, "OccupiedEntry", "remove")
    ul = [c for c in rm.calls if c.name == "unlinkat"]
    gt = [c for c in rm.calls if c.name == "get"]
    ok = len(ul) == 1 and bool(gt)
    if ok:
        e = pat.ok_edge(rm, ul[0])
        ok = e is not None and all(rm.dominates(e[1], c.bb) for c in gt) and "field:alias" in rm.origins(ul[0].args[1], through_calls="*")
    rep.check(bool(ok), "OccupiedEntry::remove|unlinks", "K1 must-pass-through", "remove unlinks the entry's file (Ok) before reading back the key", site=rm.site())
    en = [f for f in F.fns if f.name == "entry" and f.self_adt == S + "Store"]
    en = pat.one(rep, en, "Store::entry", ins)
    if en:
        oa = [c for c in en.calls if c.is_(S + "Exclusive::openat")]
        cn = [c for c in en.calls if c.is_(S + "Exclusive::create_new")]
        occ = [c for c in en.calls if c.is_(S + "OccupiedEntry::new")]
        vac = [c for c in en.calls if c.is_(S + "VacantEntry::new")]
        ok = len(oa) == 1 and len(cn) == 1 and len(occ) == 1 and len(vac) == 1
        if ok:
            eo, ec = en.outcome_edges(oa[0]).get("Ok"), en.outcome_edges(cn[0]).get("Ok")
            ok = eo and ec and en.dominates(eo[1], occ[0].bb) and en.dominates(ec[1], vac[0].bb) and not en.dominates(ec[1], occ[0].bb) \
                and any(k == "call" and c is oa[0] for k, c in en.backward_sources(occ[0].args[1].place.local)[1]) \
                and any(k == "call" and c is cn[0] for k, c in en.backward_sources(vac[0].args[1].place.local)[1])
            # variants
            ev = {s.rv[1].get("variant"): s for s in en.stmts() if s.rv_kind() == "agg" and s.rv[1].get("adt", "").endswith("keystore::Entry")}
            ok = ok and set(ev) == {"Occupied", "Vacant"} and en.dominates(eo[1], ev["Occupied"].bb) and en.dominates(ec[1], ev["Vacant"].bb)
        rep.check(bool(ok), "Store::entry|vacant-iff-created", "K2 guarded-by",
                  "Entry::Occupied only from a successful open of the existing file; Entry::Vacant only from create_new",
                  "Store::entry can report the wrong occupancy for an id", en.site())
    cnf = F.fn(S + "Exclusive::create_new")
    flags = set()
    for s in cnf.stmts():
        for o in s.operands():
            if o.const is not None:
                for d in cnf.const_defs(o.const):
                    flags.add(d.split("::")[-1])
    for c in cnf.calls:
        for a in c.args:
            if a.const is not None:
                for d in cnf.const_defs(a.const):
                    flags.add(d.split("::")[-1])
    lk = [c for c in cnf.calls if c.name == "flock"]
    rep.check({"CREATE", "EXCL"} <= flags and len(lk) == 1, "create_new|O_CREAT|O_EXCL", "K7 table",
              "create_new opens with CREATE|EXCL and takes the exclusive lock (flags seen: %s)" % sorted(flags),
              "create_new no longer uses O_CREAT|O_EXCL (flags %s): an existing key could be reported vacant" % sorted(flags), cnf.site())
    # R5 MemStore
    ms = [f for f in F.fns if f.file.endswith("keystore/memstore.rs") and f.trait and f.trait.endswith("keystore::KeyStore") and f.name in ("entry", "get")]
    names = {f.name: {c.name for c in f.calls if c.path and "btree" in c.path} for f in ms}
    rep.check(names.get("entry", set()) >= {"entry"} and names.get("get", set()) >= {"get"}, "MemStore|btreemap-delegation", "K7 table",
              "MemStore::{entry, get} delegate to BTreeMap::{entry, get}: %s" % names)
