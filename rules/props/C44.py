"""C44 Channel loans are exclusive and freed exactly once.

Decided (the two-handle protocol's shape in memory::lender; structural):
 R1 K8  BiArc::try_clone creates the second handle only on the edge where the single RMW
        state.swap(SHARED, AcqRel-or-stronger) returned UNSHARED; it is the only atomic access there.
 R2 K8  Drop for BiArc decides with one RMW, state.swap(UNSHARED, AcqRel-or-stronger), and frees
        (Box::from_raw) only on the edge where it returned UNSHARED (the other handle is gone);
        there is no separate load/store pair that two concurrent drops could both pass.
 R3 K8  get_if_shared loads with Acquire-or-stronger and exposes the value only on the SHARED arm.
 R4 K3  BiArc(..) is constructed only in BiArc::new and BiArc::try_clone; try_clone is called only
        from Lender::lend; the UnsafeCell `exclusive` is dereferenced only in Loan::get_ref /
        Loan::get_mut, both behind get_if_shared's Some edge, and get_mut takes &mut self.
 R5 K10 Loan, Lender and BiArc implement neither Clone nor Copy.
Not decided: freedom from use-after-free under every interleaving (needs a memory model)."""
from rules.core import pat, atomics
from rules.core.facts import Operand, Place

CRATES = ["aranya_fast_channels"]
THOROUGH_CONFIGS = ["cas"]   # thorough tier: the same rules on the cas_mutex build
L = "aranya_fast_channels::memory::lender::"
B = L + "biarc::"


def run(F, rep, tier):
    rep.explanation = __doc__
    sh = F.consts.get(B + "STATE_SHARED", {}).get("val")
    un = F.consts.get(B + "STATE_UNSHARED", {}).get("val")
    rep.check(sh == 1 and un == 0, "biarc|constants", "K7 table", "STATE_SHARED=%s STATE_UNSHARED=%s" % (sh, un))
    tc = F.fn(B + "BiArc::try_clone")
    ops = atomics.atomic_ops(tc)
    ok = len(ops) == 1 and ops[0].name == "swap" and "state" in ops[0].fields and ops[0].orderings[:1] in (["AcqRel"], ["SeqCst"])
    if ok:
        v = const_bool(F, tc, ops[0].call.args[1])
        ok = v == sh
        oe = tc.outcome_edges(ops[0].call)
        ags = [s for s in tc.stmts() if s.rv_kind() == "agg" and s.rv[1].get("adt", "").endswith("biarc::BiArc")]
        ok = ok and "false" in oe and bool(ags) and all(tc.dominates(oe["false"][1], s.bb) for s in ags)
    rep.check(ok, "try_clone|second-handle-only-when-unshared", "K8 atomic protocol",
              "the clone is built only on the `swap(SHARED) == UNSHARED` edge of a single AcqRel swap",
              "BiArc::try_clone can hand out a second handle while one is already shared, or does not use a single strong swap", tc.site())
    dr = [f for f in F.fns if f.name == "drop" and f.self_adt == B + "BiArc"]
    dr = pat.one(rep, dr, "Drop for BiArc", tc)
    if dr:
        ops = atomics.atomic_ops(dr)
        ok = len(ops) == 1 and ops[0].name == "swap" and "state" in ops[0].fields and ops[0].orderings[:1] in (["AcqRel"], ["SeqCst"]) and const_bool(F, dr, ops[0].call.args[1]) == un
        rep.check(ok, "drop|single-swap", "K8 atomic protocol",
                  "Drop performs exactly one atomic access: state.swap(UNSHARED, %s)" % (ops[0].orderings if ops else None),
                  "BiArc::drop does not decide with a single swap (ops: %s): two concurrent drops can both skip the free, or both free" % ops, dr.site())
        fr = [c for c in dr.calls if c.is_("Box::from_raw") or c.name in ("from_raw", "dealloc", "drop_in_place")]
        ok2 = False
        if ops and fr and ops[0].name == "swap":
            cs = [c for c in dr.cmp_switches() if c["a"].place is not None and ops[0].call.dest.local in dr.backward_sources(c["a"].place.local)[0]]
            if cs:
                tgt = cs[0]["eq"] if const_bool(F, dr, cs[0]["b"]) == un else cs[0]["ne"]
                ok2 = all(dr.dominates(tgt, c.bb) for c in fr)
            else:
                oe = dr.outcome_edges(ops[0].call)
                ok2 = "false" in oe and all(dr.dominates(oe["false"][1], c.bb) for c in fr)
        rep.check(ok2, "drop|free-only-when-other-gone", "K8 atomic protocol",
                  "Box::from_raw (the free) is dominated by the `swap(UNSHARED) == UNSHARED` edge",
                  "BiArc::drop frees on the wrong outcome of the swap", dr.site())
        frs = sorted({(f.root or f.path) for f in F.fns for c in f.calls if (c.is_("Box::from_raw")) and f.path.startswith((L, "<" + L))})
        rep.check(frs == [dr.path], "biarc|free-only-in-drop", "K3 who-may-call", "Box::from_raw is called only in Drop for BiArc (%s)" % frs)
    gs = F.fn(B + "BiArc::get_if_shared")
    ops = atomics.atomic_ops(gs)
    ok = len(ops) == 1 and ops[0].name == "load" and ops[0].orderings[:1][0] in atomics.STRONG_ACQ
    if ok:
        oe = gs.outcome_edges(ops[0].call)
        somes = [s for s in gs.stmts() if s.rv_kind() == "agg" and s.rv[1].get("variant") == "Some" and s.place.local == 0]
        ok = "true" in oe and bool(somes) and all(gs.dominates(oe["true"][1], s.bb) for s in somes)
    rep.check(ok, "get_if_shared|acquire-and-shared-arm", "K8 atomic protocol",
              "the value is exposed only on the SHARED arm of an Acquire load", site=gs.site())
    # R4
    ctors = sorted({f.path for f in F.fns for s in f.stmts() if s.rv_kind() == "agg" and s.rv[1].get("adt", "").endswith("biarc::BiArc")})
    rep.check(ctors == sorted([B + "BiArc::new", B + "BiArc::try_clone"]), "BiArc|constructors", "K3 who-may-construct", "BiArc(..) is built only in new / try_clone (%s)" % ctors)
    callers = sorted({(f.root or f.path) for f, c in F.callers_of(B + "BiArc::try_clone")})
    rep.check(callers == [L + "Lender::lend"], "try_clone|callers", "K3 who-may-call", "try_clone is called only from Lender::lend (%s)" % callers)
    ex = sorted({(f.root or f.path) for f in F.fns for c in f.calls if c.is_("UnsafeCell::get") and "field:exclusive" in f.origins(c.args[0], through_calls=())})
    rep.check(ex == sorted([L + "Loan::get_mut", L + "Loan::get_ref"]), "exclusive|access-sites", "K3 who-may-read",
              "Data.exclusive is dereferenced only in Loan::get_ref / Loan::get_mut (%s)" % ex)
    for name in ("get_ref", "get_mut"):
        f = F.fn(L + "Loan::" + name)
        gi = [c for c in f.calls if c.is_(B + "BiArc::get_if_shared")]
        uc = [c for c in f.calls if c.is_("UnsafeCell::get")]
        ok = len(gi) == 1 and bool(uc)
        if ok:
            oe = f.outcome_edges(gi[0])
            e = oe.get("Continue") or oe.get("Some")
            ok = e is not None and all(f.dominates(e[1], c.bb) for c in uc)
        rep.check(ok, "Loan::%s|behind-get_if_shared" % name, "K2 guarded-by", "the exclusive data is touched only on get_if_shared's Some edge", site=f.site())
    gm = F.fn(L + "Loan::get_mut")
    rep.check(gm.local_ty(1).startswith("&mut"), "Loan::get_mut|needs-mut-self", "K10 type fact", "get_mut takes &mut self (%s)" % gm.local_ty(1)[:40])
    # R5
    for ty in (L + "Loan", L + "Lender", B + "BiArc"):
        cl = [i for i in F.impls_of(ty.split("aranya_fast_channels::")[1], None) if i.get("trait") and i["trait"].endswith(("clone::Clone", "marker::Copy"))]
        rep.check(not cl, "%s|not-clone" % ty.split("::")[-1], "K10 type fact", "%s implements neither Clone nor Copy" % ty.split("::")[-1],
                  "%s became Clone/Copy: handles could be duplicated" % ty)


def const_bool(F, f, op):
    from rules.core.facts import strip_generics
    if op.const is not None:
        if op.const.get("val") is not None:
            return op.const["val"]
        for d in f.const_defs(op.const):
            c = F.consts.get(strip_generics(d))
            if c and c.get("val") is not None:
                return c["val"]
        d = op.const.get("dbg")
        return {"true": 1, "false": 0}.get(d)
    return None
