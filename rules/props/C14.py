"""C14 Sessions overlay their own writes on committed facts.

Decided (structural):
 R1 K2  Session::action / Session::receive: the checkpoint is taken before the policy call; on the
        Err edge perspective.revert(checkpoint) then the sink rollback(s) run on every path and
        commit is unreachable; commit only on the Ok edge.
 R2 K3  no session operation can change the graph: no call to Storage::{write, write_facts,
        commit_heads}, StorageProvider::{new_storage, remove_storage} or Perspective-on-storage
        writes is reachable from any function in client/session.rs (call graph over local code),
        and Session::{action, receive} take the client by shared reference.
 R3 K1  Session::new seeds base_facts from Storage::fact_cache() (the braided state of all heads).
 R4 K5  query/query_prefix consult the session overlay (current_facts) before/merged with
        base_facts: both fields are read in each.
Not decided: overlay/merge iterator equals the model map (value-level)."""
from rules.core import pat, k4

CRATES = ["aranya_runtime"]
S = "aranya_runtime::client::session::Session::"

FORBIDDEN = {"write", "write_facts", "commit_heads", "new_storage", "remove_storage", "new_merge_perspective"}


def run(F, rep, tier):
    rep.explanation = __doc__
    for name, callee in (("action", "call_action"), ("receive", "call_rule")):
        f = F.fn(S + name)
        pc = pat.one(rep, pat.trait_calls(f, "policy::Policy", callee), callee, f)
        if not pc:
            continue
        oe = f.outcome_edges(pc)
        if "Err" not in oe:
            rep.anchor_missing("%s: policy result not matched" % name)
            continue
        err_t = oe["Err"][1]
        cp = pat.trait_calls(f, "storage::Revertable", "checkpoint")
        rev = pat.trait_calls(f, "storage::Revertable", "revert")
        rbs = pat.trait_calls(f, "policy::Sink", "rollback")
        cms = pat.trait_calls(f, "policy::Sink", "commit")
        rep.check(bool(cp) and all(f.dominates(c.bb, pc.bb) for c in cp), "%s|checkpoint-before-call" % name, "K1 must-pass-through",
                  "checkpoint() dominates the policy call", site=pc.site())
        rev_in = [c for c in rev if c.bb in f.reachable(err_t)]
        rep.check(bool(rev_in) and pat.must_pass(f, err_t, [c.bb for c in rev_in]), "%s|err-edge-revert" % name, "K2 err-edge action",
                  "every path from the Err edge passes perspective.revert(checkpoint)",
                  "Session::%s can fail without reverting the session's fact overlay" % name, pc.site())
        if rev_in:
            srcs = f.backward_sources(rev_in[0].args[1].place.local)[1]
            rep.check(any(k == "call" and c in cp for k, c in srcs), "%s|revert-uses-checkpoint" % name, "K6 provenance",
                      "revert gets the checkpoint taken before the call", site=rev_in[0].site())
        cut = {pat.err_edge(f, c) for c in rev_in if pat.err_edge(f, c)}
        rb_in = [c for c in rbs if c.bb in f.reachable(err_t)]
        # effect sink rollback on every path (except revert's own failure)
        r = f.reachable(err_t, cut_edges=cut, cut_blocks={c.bb for c in rb_in})
        rep.check(bool(rb_in) and not (r & set(f.returns())), "%s|err-edge-rollback" % name, "K2 err-edge action",
                  "sink rollback runs on every failure path", site=pc.site())
        rep.check(bool(cms) and not pat.unreachable_from(f, err_t, cms), "%s|no-commit-on-failure" % name, "K2 err-edge action",
                  "sink.commit() is unreachable from the Err edge", site=pc.site())
        if "Ok" in oe:
            okt = oe["Ok"][1]
        else:
            okt = f.switch_on(oe["Err"][0])[2]
        rep.check(all(pat.only_via_edge(f, (oe["Err"][0], okt), [c.bb]) for c in cms), "%s|commit-only-on-ok" % name, "K2 guarded-by",
                  "sink.commit() only on the Ok edge", site=pc.site())
        # client by shared reference
        rep.check(f.local_ty(2).startswith("&") and not f.local_ty(2).startswith("&mut"), "%s|client-shared-borrow" % name, "K10 type fact",
                  "the client is borrowed immutably: %s" % f.local_ty(2)[:50], site=f.site())

    # R2 reachability
    roots = [f for f in F.fns_in_file("client/session.rs") if not f.derived]
    rep.floor("functions in client/session.rs", len(roots), 20)
    cg = k4.CallGraph(F)
    order, seen, stats = cg.reach(roots)
    hits = []
    for f in order:
        for c in f.calls:
            if c.name in FORBIDDEN and c.trait and (c.trait.endswith("storage::Storage") or c.trait.endswith("storage::StorageProvider")):
                hits.append((f, c))
    rep.check(not hits, "session|no-graph-writes-reachable", "K3 who-may-call",
              "no Storage::{write, write_facts, commit_heads, new_merge_perspective} / StorageProvider::{new_storage, remove_storage} call is reachable "
              "from client/session.rs (%d functions reached)" % len(order),
              "graph-mutating call reachable from session code: %s" % ["%s in %s" % (c.name, f.path) for f, c in hits][:4], None)
    # R3
    new = F.fn(S + "new")
    agg = [s for s in new.stmts() if s.rv_kind() == "agg" and s.rv[1].get("adt", "").endswith("session::Session")]
    ok = False
    if agg:
        flds = agg[0].rv[1]["fields"]
        ops = agg[0].operands()
        if "base_facts" in flds:
            o = ops[flds.index("base_facts")]
            ok = o.place is not None and any(k == "call" and c.name == "fact_cache" for k, c in new.backward_sources(o.place.local, through_calls=("Try::branch",))[1])
    rep.check(ok, "Session::new|base-facts-from-fact-cache", "K6 provenance", "base_facts is storage.fact_cache()", site=new.site())
    # R4
    n = 0
    for f in F.fns:
        if f.trait and f.trait.endswith("storage::Query") and f.self_adt and f.self_adt.endswith("session::SessionPerspective") and f.name in ("query", "query_prefix"):
            n += 1
            reads = set()
            for s in f.stmts():
                for p in s.src_places():
                    for fl in ("current_facts", "base_facts"):
                        if fl in p.fields():
                            reads.add(fl)
            for g in F.closures_of(f):
                for s in g.stmts():
                    for p in s.src_places():
                        for fl in ("current_facts", "base_facts"):
                            if fl in p.fields():
                                reads.add(fl)
            rep.check(reads == {"current_facts", "base_facts"}, "SessionPerspective::%s|reads-both-layers" % f.name, "K5 sibling agreement",
                      "%s reads the session overlay and the committed base facts" % f.name, site=f.site())
    rep.floor("SessionPerspective query fns", n, 2)
