"""C14 Sessions overlay their own writes on committed facts.

Decided (structural):
 R1 K2  Session::action / Session::receive: the checkpoint is taken before the policy call; on the
        Err edge perspective.revert(checkpoint) then the sink rollback(s) run on every path and
        commit is unreachable; commit only on the Ok edge.
 R2 K3  no session operation can change the graph: no call to Storage::{write, write_facts,
        commit_heads}, StorageProvider::{new_storage, remove_storage} or Perspective-on-storage
        writes is reachable from any function in client/session.rs (call graph over local code),
        and Session::{action, receive} take the client by shared reference.
 R3 K1  Session::new seeds base_facts from Storage::fact_cache() (the braided state of all heads).
 R4 K5  query/query_prefix consult the session overlay (current_facts) before/merged with
        base_facts: both fields are read in each.
 R5 K1  SessionPerspective::revert restores by replay: the log (entries carry only the new value) is
        truncated to the checkpoint, the overlay map is cleared before any other mutation, every
        remaining log entry is re-inserted, nothing is removed slot-wise, and the result is installed.
 R6 K2  the merge iterator of prefix queries returns only live overlay slots or the base iterator's own
        next(): a deletion tombstone is skipped, never turned into the end of the iteration.
 R7 K5  SessionPerspective::insert and ::delete both log the write and store a slot for the key in the
        overlay (a tombstone for delete) on every path; neither removes overlay slots.
Not decided: overlay/merge iterator equals the model map (value-level)."""
from rules.core import pat, k4
from rules.core.facts import Operand

CRATES = ["aranya_runtime"]
THOROUGH_CONFIGS = ["lowmem"]   # thorough tier: the same rules on the low-mem-usage build
S = "aranya_runtime::client::session::Session::"

FORBIDDEN = {"write", "write_facts", "commit_heads", "new_storage", "remove_storage", "new_merge_perspective"}


def run(F, rep, tier):
    rep.explanation = __doc__
    for name, callee in (("action", "call_action"), ("receive", "call_rule")):
        f = F.fn(S + name)
        pc = pat.one(rep, pat.trait_calls(f, "policy::Policy", callee), callee, f)
        if not pc:
            continue
        oe = f.outcome_edges(pc)
        if "Err" not in oe:
            rep.anchor_missing("%s: policy result not matched" % name)
            continue
        err_t = oe["Err"][1]
        cp = pat.trait_calls(f, "storage::Revertable", "checkpoint")
        rev = pat.trait_calls(f, "storage::Revertable", "revert")
        rbs = pat.trait_calls(f, "policy::Sink", "rollback")
        cms = pat.trait_calls(f, "policy::Sink", "commit")
        rep.check(bool(cp) and all(f.dominates(c.bb, pc.bb) for c in cp), "%s|checkpoint-before-call" % name, "K1 must-pass-through",
                  "checkpoint() dominates the policy call", site=pc.site())
        rev_in = [c for c in rev if c.bb in f.reachable(err_t)]
        rep.check(bool(rev_in) and pat.must_pass(f, err_t, [c.bb for c in rev_in]), "%s|err-edge-revert" % name, "K2 err-edge action",
                  "every path from the Err edge passes perspective.revert(checkpoint)",
                  "Session::%s can fail without reverting the session's fact overlay" % name, pc.site())
        if rev_in:
            srcs = f.backward_sources(rev_in[0].args[1].place.local)[1]
            rep.check(any(k == "call" and c in cp for k, c in srcs), "%s|revert-uses-checkpoint" % name, "K6 provenance",
                      "revert gets the checkpoint taken before the call", site=rev_in[0].site())
        cut = {pat.err_edge(f, c) for c in rev_in if pat.err_edge(f, c)}
        rb_in = [c for c in rbs if c.bb in f.reachable(err_t)]
        # effect sink rollback on every path (except revert's own failure)
        r = f.reachable(err_t, cut_edges=cut, cut_blocks={c.bb for c in rb_in})
        rep.check(bool(rb_in) and not (r & set(f.returns())), "%s|err-edge-rollback" % name, "K2 err-edge action",
                  "sink rollback runs on every failure path", site=pc.site())
        rep.check(bool(cms) and not pat.unreachable_from(f, err_t, cms), "%s|no-commit-on-failure" % name, "K2 err-edge action",
                  "sink.commit() is unreachable from the Err edge", site=pc.site())
        if "Ok" in oe:
            okt = oe["Ok"][1]
        else:
            okt = f.switch_on(oe["Err"][0])[2]
        rep.check(all(pat.only_via_edge(f, (oe["Err"][0], okt), [c.bb]) for c in cms), "%s|commit-only-on-ok" % name, "K2 guarded-by",
                  "sink.commit() only on the Ok edge", site=pc.site())
        # client by shared reference
        rep.check(f.local_ty(2).startswith("&") and not f.local_ty(2).startswith("&mut"), "%s|client-shared-borrow" % name, "K10 type fact",
                  "the client is borrowed immutably: %s" % f.local_ty(2)[:50], site=f.site())

    # R2 reachability
    roots = [f for f in F.fns_in_file("client/session.rs") if not f.derived]
    rep.floor("functions in client/session.rs", len(roots), 20)
    cg = k4.CallGraph(F)
    order, seen, stats = cg.reach(roots)
    hits = []
    for f in order:
        for c in f.calls:
            if c.name in FORBIDDEN and c.trait and (c.trait.endswith("storage::Storage") or c.trait.endswith("storage::StorageProvider")):
                hits.append((f, c))
    rep.check(not hits, "session|no-graph-writes-reachable", "K3 who-may-call",
              "no Storage::{write, write_facts, commit_heads, new_merge_perspective} / StorageProvider::{new_storage, remove_storage} call is reachable "
              "from client/session.rs (%d functions reached)" % len(order),
              "graph-mutating call reachable from session code: %s" % ["%s in %s" % (c.name, f.path) for f, c in hits][:4], None)
    # R3
    new = F.fn(S + "new")
    agg = [s for s in new.stmts() if s.rv_kind() == "agg" and s.rv[1].get("adt", "").endswith("session::Session")]
    ok = False
    if agg:
        flds = agg[0].rv[1]["fields"]
        ops = agg[0].operands()
        if "base_facts" in flds:
            o = ops[flds.index("base_facts")]
            ok = o.place is not None and any(k == "call" and c.name == "fact_cache" for k, c in new.backward_sources(o.place.local, through_calls=("Try::branch",))[1])
    rep.check(ok, "Session::new|base-facts-from-fact-cache", "K6 provenance", "base_facts is storage.fact_cache()", site=new.site())
    # R4
    n = 0
    for f in F.fns:
        if f.trait and f.trait.endswith("storage::Query") and f.self_adt and f.self_adt.endswith("session::SessionPerspective") and f.name in ("query", "query_prefix"):
            n += 1
            reads = set()
            for s in f.stmts():
                for p in s.src_places():
                    for fl in ("current_facts", "base_facts"):
                        if fl in p.fields():
                            reads.add(fl)
            for g in F.closures_of(f):
                for s in g.stmts():
                    for p in s.src_places():
                        for fl in ("current_facts", "base_facts"):
                            if fl in p.fields():
                                reads.add(fl)
            rep.check(reads == {"current_facts", "base_facts"}, "SessionPerspective::%s|reads-both-layers" % f.name, "K5 sibling agreement",
                      "%s reads the session overlay and the committed base facts" % f.name, site=f.site())
    rep.floor("SessionPerspective query fns", n, 2)
    revert_rules(F, rep)


MAP_MUTATORS = {"insert", "entry", "remove", "remove_entry", "retain", "get_mut", "extend", "append", "pop_first", "pop_last", "split_off",
                "first_entry", "last_entry", "values_mut", "iter_mut", "extract_if", "get_or_insert_with", "index_mut"}


def revert_rules(F, rep):
    """R5: SessionPerspective::revert restores the overlay by replay from empty."""
    f = F.fn("<aranya_runtime::client::session::SessionPerspective as aranya_runtime::storage::Revertable>::revert")
    # preconditions of the rule: the log has no previous values and the checkpoint is only an index
    cp = F.adt("aranya_runtime::storage::Checkpoint")
    sess = F.adt("aranya_runtime::client::session::Session")
    flds = {x["name"]: x["ty"] for x in sess["variants"][0]["fields"]} if sess else {}
    log_ty = flds.get("fact_log", "")
    pre = cp is not None and [x["name"] for x in cp["variants"][0]["fields"]] == ["index"] and log_ty.count("Option<") == 1 and "current_facts" in flds
    if not pre:
        rep.anchor_missing("session fact log of (name, keys, new value) entries with an index-only Checkpoint (the replay rule for revert presupposes it; log type: %s)" % log_ty[:120])
        return
    site = f.site()
    DER = ("Arc::get_mut", "Arc::make_mut", "Option::map_or_else", "mem::take", "Option::unwrap_or_default", "Option::unwrap_or_else", "Deref::deref", "DerefMut::deref_mut",
           "Entry::or_default", "BTreeMap::entry", "Entry::or_insert_with", "Arc::new", "Default::default")

    def overlay(o):
        if o is None or o.place is None:
            return False
        og = f.origins(o, through_calls=DER)
        return "field:current_facts" in og or bool(set(f.backward_sources(o.place.local, through_calls=DER)[0]) & ovl)

    # locals holding the overlay: sources of what is stored into current_facts
    ovl = set()
    for s in f.field_stores("current_facts"):
        for o in s.operands():
            if o.place is not None:
                ovl |= set(f.backward_sources(o.place.local, through_calls=DER)[0])
    trunc = [c for c in f.calls if c.name in ("truncate",) and "field:fact_log" in f.origins(c.args[0], through_calls=()) and "field:index" in f.origins(c.args[1], through_calls=())]
    oks = pat.ok_returns(f)
    eq = [c for c in f.cmp_switches() if c["op"] in ("Eq", "eq") and {"field:index"} <= (f.origins(c["a"], through_calls=()) | f.origins(c["b"], through_calls=()))]
    early = set()
    for c in eq:
        if c.get("eq") is not None:
            early |= f.dominated_region(c["eq"])
    late_oks = [s for s in oks if s.bb not in early]
    rep.check(len(trunc) == 1 and bool(late_oks) and all(f.dominates(trunc[0].bb, s.bb) for s in late_oks), "revert|log-truncated-to-checkpoint", "K1 must-pass-through",
              "fact_log.truncate(checkpoint.index) dominates every successful return except the `index == len` early return",
              "SessionPerspective::revert can return Ok without truncating the fact log to the checkpoint", site)
    clears = [c for c in f.calls if c.name == "clear" and overlay(c.args[0])]
    muts = [c for c in f.calls if c.name in MAP_MUTATORS and c.self_ty and "BTreeMap" in c.self_ty and overlay(c.args[0])]
    # alternatively the installed map is a brand new one (BTreeMap::new() / default()), never derived from the old overlay
    fresh = False
    for s in f.field_stores("current_facts"):
        for o in s.operands():
            if o.place is not None:
                og = f.origins(o, through_calls=DER)
                if "field:current_facts" not in og and ("call:new" in og or "call:default" in og) and not ({"call:get_mut", "call:make_mut", "call:take", "call:clone"} & og):
                    fresh = True
    ok = fresh or (bool(clears) and all(any(f.dominates(k.bb, m.bb) for k in clears) for m in muts) and all(any(f.dominates(k.bb, s.bb) for k in clears) for s in late_oks))
    rep.check(ok, "revert|overlay-rebuilt-from-empty", "K1 must-pass-through",
              "the overlay map is cleared before any other mutation of it, on every non-trivial path to Ok (%d mutating calls)" % len(muts),
              "SessionPerspective::revert edits the existing overlay instead of rebuilding it from empty: the log records only new values, so a slot overwritten by the reverted operation cannot be restored this way", site)
    removes = [c for c in muts if c.name in ("remove", "remove_entry", "retain", "pop_first", "pop_last", "split_off", "extract_if")]
    rep.check(not removes, "revert|no-removal-from-overlay", "K3 who-may-call", "revert never removes slots from the overlay (it replays the log prefix)",
              "SessionPerspective::revert removes overlay slots (%s): a removed slot falls back to the committed base instead of the session's earlier write" % ", ".join(sorted({c.name for c in removes})), site)
    # replay loop
    nx = [c for c in f.calls if c.is_("Iterator::next") and "field:fact_log" in f.origins(c.args[0], through_calls="*")]
    ins = [c for c in f.calls if c.name == "insert" and c.self_ty and "BTreeMap" in c.self_ty and overlay(c.args[0])]
    ok = len(nx) == 1 and bool(ins) and bool(trunc)
    if ok:
        ok = f.dominates(trunc[0].bb, nx[0].bb)
        for c in ins:
            vals = f.origins(c.args[2], through_calls=("Clone::clone",)) if len(c.args) > 2 else set()
            ok = ok and "call:next" in vals and nx[0].bb in f.reachable(c.bb)
        oe = f.outcome_edges(nx[0])
        ok = ok and "None" in oe and all(f.dominates(oe["None"][1], s.bb) for s in late_oks)
    rep.check(ok, "revert|replays-log-prefix", "K1 must-pass-through",
              "after the truncation every remaining log entry is re-inserted (value from the log) and Ok is returned only when the log is exhausted",
              "SessionPerspective::revert does not replay the whole remaining fact log into the overlay", site)
    st = f.field_stores("current_facts")
    if st:
        ok = (fresh or all(any(f.dominates(k.bb, s.bb) for k in clears) for s in st)) and all(any(f.dominates(s.bb, r.bb) for s in st) for r in late_oks)
        rep.check(ok, "revert|overlay-installed", "K1 must-pass-through", "the rebuilt map is stored into current_facts before Ok", site=site)
    merge_iterator_rule(F, rep)


def merge_iterator_rule(F, rep):
    """R6: the overlay/base merge iterator of prefix queries ends only when the base iterator ends after the
    overlay is exhausted. A deletion in the overlay (value None) is skipped by looping; it is never turned
    into the iterator's own None."""
    fs = [f for f in F.fns if f.name == "next" and f.self_adt and f.self_adt.endswith("session::QueryIterator")]
    if len(fs) != 1:
        rep.anchor_missing("Iterator::next for session::QueryIterator")
        return
    f = fs[0]
    bad = []
    n = 0
    for s in f.stmts():
        if s.place is not None and s.place.local == 0 and not s.place.proj:
            n += 1
            if s.rv_kind() == "agg" and s.rv[1].get("variant") == "Some":
                continue
            if s.rv_kind() == "use" and Operand(s.rv[1]).place is not None:
                # a value passed on through a local: fine when it is prior.next()'s own result or a Some(..) built above
                srcs = f.backward_sources(Operand(s.rv[1]).place.local, through_calls=())[1]
                good = [1 for k, x in srcs if (k == "call" and x.is_("Iterator::next") and "field:prior" in f.origins(x.args[0], through_calls=()))
                        or (k == "stmt" and x.rv_kind() == "agg" and x.rv[1].get("variant") == "Some")]
                other = [1 for k, x in srcs if k == "call" and not (x.is_("Iterator::next") and "field:prior" in f.origins(x.args[0], through_calls=()))]
                if good and not other:
                    continue
            bad.append("%s:%d (%s)" % (f.file, s.line, s.rv_kind()))
    for c in f.calls:
        if c.dest is not None and c.dest.local == 0 and not c.dest.proj:
            n += 1
            if c.is_("Iterator::next") and "field:prior" in f.origins(c.args[0], through_calls=()):
                continue
            if any(m == "bug" or m.endswith("::bug") for m in c.macs):
                continue
            bad.append("%s (%s)" % (c.site(), c.name))
    rep.check(not bad and n >= 2, "QueryIterator::next|ends-only-with-base", "K2 guarded-by",
              "every value QueryIterator::next returns is Some(..) built from a live overlay slot, or the base iterator's own next() (%d return sites)" % n,
              "QueryIterator::next can return something else (%s): an overlay entry - in particular a deletion tombstone - can end the merged prefix query early, hiding later session-written facts" % ", ".join(bad),
              f.site())
    # the Some(..) answers come from live slots only: dominated by the Some edge of a test on the slot's value
    somes = [s for s in f.stmts() if s.place is not None and s.place.local == 0 and s.rv_kind() == "agg" and s.rv[1].get("variant") == "Some"]
    opts = f.discr_switches("option::Option")
    ok = bool(somes)
    for s in somes:
        ok = ok and any("Some" in x[1] and x[1]["Some"] != x[2] and f.dominates(x[1]["Some"], s.bb) and "call:next" in f.origins(Operand(["c", x[3].rv[1]]), through_calls=()) for x in opts)
    rep.check(ok, "QueryIterator::next|tombstones-skipped", "K2 guarded-by",
              "an overlay slot is yielded only on the Some edge of its value (a deleted fact is not yielded)", site=f.site())
    overlay_writer_rule(F, rep)


def overlay_writer_rule(F, rep):
    """R7: the session's two fact writers agree: SessionPerspective::{insert, delete} both log the write and
    then *store* a slot for the key in the overlay (Some(value) / None); on every path to Ok. A delete that
    removes the overlay slot instead of storing a tombstone lets the committed fact underneath shine through
    again, and disagrees with the log that revert replays."""
    n = 0
    for name, want in (("insert", "Some"), ("delete", "None")):
        fs = [f for f in F.fns if f.name == name and f.trait and f.trait.endswith("storage::QueryMut") and f.self_adt and f.self_adt.endswith("session::SessionPerspective")]
        if len(fs) != 1:
            rep.anchor_missing("QueryMut::%s for SessionPerspective" % name)
            continue
        f = fs[0]
        n += 1
        push = [c for c in f.calls if c.name == "push" and "field:fact_log" in f.origins(c.args[0], through_calls=())]
        DER = ("Arc::make_mut", "BTreeMap::entry", "Entry::or_default", "DerefMut::deref_mut", "Entry::or_insert_with", "BTreeMap::get_mut", "Option::unwrap_or_default")
        ov = lambda o: o is not None and o.place is not None and "field:current_facts" in f.origins(o, through_calls=DER)
        stores = [c for c in f.calls if c.name == "insert" and c.self_ty and "BTreeMap" in c.self_ty and ov(c.args[0])]
        removers = [c for c in f.calls if c.name in ("remove", "remove_entry", "retain", "pop_first", "pop_last", "clear") and c.self_ty and "BTreeMap" in c.self_ty and ov(c.args[0])]
        rets = ok_returns_or_all(f)
        ok = len(push) == 1 and bool(stores) and not removers
        if ok:
            cut = set()
            r = f.reachable(0, cut_blocks={c.bb for c in stores})
            ok = not (r & rets) and all(f.dominates(push[0].bb, c.bb) or f.dominates(c.bb, push[0].bb) for c in stores)
            r2 = f.reachable(0, cut_blocks={push[0].bb})
            ok = ok and not (r2 & rets)
        rep.check(ok, "SessionPerspective::%s|logs-and-stores-slot" % name, "K5 sibling agreement",
                  "%s pushes the write onto fact_log and stores a slot (%s) for the key in the overlay on every path; it removes nothing" % (name, want),
                  "SessionPerspective::%s does not both log the write and store a slot for the key in the overlay on every path (overlay removals: %s): "
                  "a deleted fact can reappear from the committed base, and the overlay disagrees with the log that revert replays" % (name, sorted({c.name for c in removers}) or "none"), f.site())
    rep.floor("session fact writers checked", n, 2)


def ok_returns_or_all(f):
    rs = {s.bb for s in pat.ok_returns(f)}
    return rs or set(f.returns())
