"""C09 The head set is exactly the frontier.

Decided (structural bookkeeping, every ingest history):
 R1 K1  each storage.write(perspective) in transaction.rs (flush, add_merge, get_perspective)
        is followed on its Ok edge by self.heads.insert(seg.head_id(), seg.head_location()).
 R2 K1  tips are retired when covered: add_single removes the parent tip after the child was
        added; add_merge removes both merge parents (and only after the merge command was added).
 R3 K3  sorted, duplicate-free committed set: HeadSet.heads is written only by HeadSet::single and
        HeadSet::push; push inserts at the Err(index) of binary_search(&head) on the same vector;
        LocatedAddress derives Ord with `id` as its first field; Transaction::commit builds the
        committed set from self.heads (BTreeMap keyed by CmdId) only through HeadSet::push, and
        ClientState::action through HeadSet::single.
 R4 K1+K6 rejection path (shared with C06-R7): a fresh perspective left empty by a rejected command is
        un-installed, and the in-flight perspective is dropped only on the `includes(parent) == false`
        edge - otherwise accepted tips vanish from the committed head set.
 R5 K2  duplicate detection (shared with C01-R6): Transaction::locate reports a command absent only after
        searching the committed graph and every transaction tip - a committed command that is not found is
        ingested a second time and its id enters the head set although it has committed descendants.
Not decided: that this bookkeeping equals the true frontier for every history (value-level)."""
from rules.core import pat, rt
from rules.core.facts import Operand, PASS_THROUGH, Place

CRATES = ["aranya_runtime"]
THOROUGH_CONFIGS = ["lowmem"]   # thorough tier: the same rules on the low-mem-usage build
T = "aranya_runtime::client::transaction::Transaction::"


def run(F, rep, tier):
    rep.explanation = __doc__
    n = 0
    for name in ("flush", "add_merge", "get_perspective"):
        f = F.fn(T + name)
        for w in pat.trait_calls(f, "storage::Storage", "write"):
            n += 1
            oke = pat.ok_edge(f, w)
            ins = [c for c in f.calls if c.name == "insert" and f.derives_from_field(c.args[0], "heads")]
            good = []
            for c in ins:
                srcs = []
                for a in c.args[1:]:
                    if a.place is not None:
                        srcs += [x for k, x in f.backward_sources(a.place.local, through_calls=PASS_THROUGH + ("head_id", "head_location"))[1] if k == "call"]
                names = {x.name for x in srcs}
                if "head_id" in names and "head_location" in names and any(x is w for x in srcs) and oke and f.dominates(oke[1], c.bb):
                    good.append(c)
            ok = False
            if good and oke:
                # every path from the Ok edge to a return passes the insert, except head_location's own `?` failure
                hl = [c for c in f.calls if c.name == "head_location" and oke and f.dominates(oke[1], c.bb)]
                cut = {pat.err_edge(f, c) for c in hl if pat.err_edge(f, c)}
                r = f.reachable(oke[1], cut_edges=cut, cut_blocks={c.bb for c in good})
                ok = not (r & set(f.returns()))
            rep.check(ok, "%s|write-then-tip-insert" % name, "K1 pairing",
                      "storage.write(p)'s Ok edge is followed by self.heads.insert(seg.head_id(), seg.head_location()) on every path",
                      "Transaction::%s writes a perspective out without recording its head as a tip" % name, w.site())
    rep.floor("perspective write-out sites", n, 3)

    # R2
    am = F.fn(T + "add_merge")
    rem = [c for c in am.calls if c.name == "remove" and am.derives_from_field(c.args[0], "heads")]
    acs = pat.trait_calls(am, "storage::Perspective", "add_command")
    ac_ok = [pat.ok_edge(am, a)[1] for a in acs if pat.ok_edge(am, a)]
    keys = set()
    for c in rem:
        for k, d in am.backward_sources(c.args[1].place.local)[1]:
            if k == "stmt":
                for p in d.src_places():
                    nm = am.local_name(p.local)
                    if nm in ("left", "right") and "id" in p.fields():
                        keys.add(nm)
    rep.check(keys == {"left", "right"} and all(any(am.dominates(t, c.bb) for t in ac_ok) for c in rem), "add_merge|parents-retired", "K1 pairing",
              "add_merge removes left.id and right.id from self.heads after the merge command was added",
              "add_merge does not retire both merge parents from the transaction's tips (found: %s)" % sorted(keys), am.site())
    asg = F.fn(T + "add_single")
    rem = [c for c in asg.calls if c.name == "remove" and asg.derives_from_field(c.args[0], "heads")]
    acs = pat.trait_calls(asg, "storage::Perspective", "add_command")
    ac_ok = [pat.ok_edge(asg, a)[1] for a in acs if pat.ok_edge(asg, a)]
    pk = False
    for c in rem:
        for k, d in asg.backward_sources(c.args[1].place.local)[1]:
            if k == "stmt":
                for p in d.src_places():
                    if asg.local_name(p.local) == "parent" and "id" in p.fields():
                        pk = True
    oks = pat.ok_returns(asg)
    rep.check(pk and bool(rem) and all(any(asg.dominates(t, c.bb) for t in ac_ok) for c in rem) and all(any(asg.dominates(c.bb, s.bb) for c in rem) for s in oks),
              "add_single|parent-retired", "K1 pairing",
              "add_single removes parent.id from self.heads on every Ok path, after add_command succeeded", site=asg.site())

    # R3
    writers = []
    for f in F.fns:
        if f.file.endswith("tests.rs"):
            continue
        for s in f.stmts():
            if s.rv_kind() == "agg" and s.rv[1].get("adt", "").endswith("head_set::HeadSet"):
                writers.append((f, "construct"))
            if s.rv_kind() == "ref" and s.rv[1] == "mut":
                p = Place(s.rv[2])
                if "heads" in p.fields():
                    # only count when the base type is HeadSet
                    base_ty = f.local_ty(p.local)
                    if "HeadSet" in base_ty and "Transaction" not in base_ty:
                        writers.append((f, "mutborrow"))
    wnames = {f.path for f, _ in writers if not f.derived}
    allowed = {"aranya_runtime::storage::head_set::HeadSet::single", "aranya_runtime::storage::head_set::HeadSet::push"}
    rep.check(wnames <= allowed and allowed <= wnames, "HeadSet|writers", "K3 who-may-write",
              "HeadSet.heads is constructed/mutated only in HeadSet::single and HeadSet::push (plus derived Default/Clone/Deserialize)",
              "HeadSet.heads is written outside single/push: %s" % sorted(wnames - allowed), None)
    push = F.fn("aranya_runtime::storage::head_set::HeadSet::push")
    bs = [c for c in push.calls if c.name == "binary_search"]
    insc = [c for c in push.calls if c.name == "insert"]
    ok = False
    if len(bs) == 1 and len(insc) == 1:
        oe = push.outcome_edges(bs[0])
        idx_src = push.backward_sources(insc[0].args[1].place.local, through_calls=())[0]
        ok = "Err" in oe and push.dominates(oe["Err"][1], insc[0].bb) and bs[0].dest.local in idx_src \
            and push.derives_from_field(bs[0].args[0], "heads") and push.derives_from_field(insc[0].args[0], "heads")
        others = [c for c in push.calls if c.name in ("push", "extend", "append", "push_back")]
        ok = ok and not others
    rep.check(ok, "HeadSet::push|sorted-insert", "K6 provenance",
              "push inserts at the Err(index) returned by binary_search(&head) on self.heads and nowhere else",
              "HeadSet::push does not keep the vector sorted/deduplicated (insert index not from binary_search's Err)", push.site())
    la = F.adt("aranya_runtime::storage::LocatedAddress")
    fields = [x["name"] for x in la["variants"][0]["fields"]]
    ords = [i for i in F.impls_of("storage::LocatedAddress", "cmp::Ord") if i["derived"]]
    pords = [i for i in F.impls_of("storage::LocatedAddress", "cmp::PartialOrd") if i["derived"]]
    rep.check(fields[:1] == ["id"] and bool(ords) and bool(pords), "LocatedAddress|ord-by-id-first", "K10 type fact",
              "LocatedAddress derives Ord/PartialOrd with `id` (global CmdId) as first field: %s" % fields,
              "LocatedAddress ordering is not (derived, id-first): fields %s, derived Ord %s" % (fields, bool(ords)), None)
    cm = F.fn(T + "commit")
    hs = [c for c in cm.calls if c.path and "head_set::HeadSet" in c.path]
    names = {c.name for c in hs}
    pushes = [c for c in hs if c.name == "push"]
    src_ok = False
    for c in pushes:
        if cm.derives_from_field(c.args[1], "heads") or any(k == "call" and x.name in ("next", "into_iter") for k, x in cm.backward_sources(c.args[1].place.local, through_calls="*", max_depth=30)[1]):
            src_ok = True
    ch = [c for c in cm.calls if c.name == "commit_heads"]
    arg_ok = bool(ch) and any(k == "call" and (x.name == "default" or x.name == "push") for k, x in cm.backward_sources(ch[0].args[1].place.local, through_calls="*", max_depth=30)[1])
    rep.check(bool(pushes) and names <= {"push", "iter", "default", "len", "is_empty", "as_slice"} and src_ok and arg_ok, "commit|head-set-built-by-push", "K3 who-may-write",
              "Transaction::commit builds the committed HeadSet from self.heads only through HeadSet::push", site=cm.site())
    from rules.props import C06 as _c06
    _c06.check_install_fill(F, rep)
    rt.rule_locate(F, rep)
