"""C05 Concurrent finalize commands are always detected.

Decided (detection and abort shape; structural):
 R1 K3  the braid's strand heap is pushed to only inside StrandHeap::push (BinaryHeap::push on
        StrandHeap.heap has no other call site).
 R2 K2  StrandHeap::push returns Err(ParallelFinalize) exactly on the edge
        `priority == Finalize && has_finalize`; on the other Finalize edge has_finalize = true is set
        before the heap push; non-finalize strands leave the flag alone.
 R3 K1  has_finalize is cleared when the finalize strand leaves the heap: in pop (Finalize arm),
        lone and clear; nowhere else is it written.
 R4 K2  the error aborts without committing: in Transaction::commit, commit_heads is unreachable
        from the Err edge of evaluate_braid; in add_merge no self.heads mutation and no
        perspective installation is reachable from it; braid() propagates strands.push errors (`?`).
 R5 K10 Priority's Ord is the derived one over Merge < Basic(_) < Finalize < Init (the braid pops the
        largest key, so this is what puts a finalize command ahead of everything concurrent with it).
Not decided: that both finalize strands are in the heap at once for every DAG shape (value-level)."""
from rules.core import pat, rt
from rules.core.facts import Operand, Place

CRATES = ["aranya_runtime"]
THOROUGH_CONFIGS = ["lowmem"]   # thorough tier: the same rules on the low-mem-usage build
SH = rt.SH


def writes_field(f, field):
    st = f.field_stores(field)
    return st


def run(F, rep, tier):
    rep.explanation = __doc__
    # R1
    pushers = []
    for f in F.fns:
        for c in f.calls:
            if c.is_("BinaryHeap::push") and c.args and f.derives_from_field(c.args[0], "heap") and "Strand" in (f.local_ty(c.args[1].place.local) if c.args[1].place is not None else ""):
                pushers.append(f.path)
    rep.check(pushers == [SH + "StrandHeap::push"], "StrandHeap|heap-pushers", "K3 who-may-write",
              "BinaryHeap::push on StrandHeap.heap is called only from StrandHeap::push (found %s)" % pushers)
    # heap field visibility
    adt = F.adt(SH + "StrandHeap")
    vis = {x["name"]: x["vis"] for x in adt["variants"][0]["fields"]}
    rep.check(vis.get("heap") != "pub" and vis.get("has_finalize") != "pub", "StrandHeap|private-fields", "K10 type fact",
              "heap / has_finalize are private to strand_heap (vis: %s)" % vis)
    # R2
    p = F.fn(SH + "StrandHeap::push")
    sws = [x for x in p.discr_switches("command::Priority")]
    sw = pat.one(rep, sws, "Priority match in StrandHeap::push", p)
    if sw:
        fin_t, nonfin = p.variant_edge(sw, "Finalize")
        flag = None
        for b in range(p.nblocks):
            s = p.switch_on(b)
            if s and s[0].place is not None:
                for k, d in p.defs().get(s[0].place.local, []):
                    if k == "stmt" and any("has_finalize" in pl.fields() for pl in d.src_places()):
                        flag = (b, s[1].get(0), s[2])
        errs = pat.err_aggs(p, "ParallelFinalize")
        hp = [c for c in p.calls if c.is_("BinaryHeap::push")]
        ok = flag is not None and bool(errs) and bool(hp)
        if ok:
            ok = p.dominates(fin_t, flag[0]) and all(p.dominates(flag[2], s.bb) for s in errs) and not any(h.bb in p.reachable(flag[2], cut_blocks={flag[0]}) for h in hp)
        rep.check(ok, "push|parallel-finalize-edge", "K2 guarded-by",
                  "Err(ParallelFinalize) on `priority == Finalize && has_finalize`, and the strand is not pushed on that edge",
                  "StrandHeap::push does not reject a second concurrent finalize strand", p.site())
        st = p.field_stores("has_finalize")
        ok = flag is not None and bool(st) and all(Operand(s.rv[1]).val == 1 and p.dominates(flag[1], s.bb) and p.dominates(fin_t, s.bb) for s in st) \
            and all(any(p.dominates(s.bb, h.bb) or h.bb in p.reachable(s.bb) for s in st) for h in hp)
        # on the first-finalize edge, every path to heap.push passes the store
        if ok:
            r = p.reachable(flag[1], cut_blocks={s.bb for s in st})
            ok = not any(h.bb in r for h in hp)
        rep.check(ok, "push|flag-set-on-first-finalize", "K1 must-pass-through",
                  "has_finalize = true is stored on the first-finalize edge before the strand is pushed", site=p.site())
    # R3 writers of has_finalize
    writers = {}
    for f in F.fns:
        st = f.field_stores("has_finalize")
        if st and "StrandHeap" in (f.self_ty or f.path):
            writers[f.path.split("::")[-1]] = [Operand(s.rv[1]).val for s in st if s.rv_kind() == "use"]
        for s in f.stmts():
            if s.rv_kind() == "agg" and s.rv[1].get("adt", "").endswith("strand_heap::StrandHeap"):
                writers.setdefault(f.path.split("::")[-1], []).append("ctor")
    expect = {"push": [1], "pop": [0], "lone": [0], "clear": [0], "new": ["ctor"]}
    rep.check(writers == expect, "StrandHeap|flag-writers", "K3 who-may-write",
              "has_finalize writers: push sets it, pop/lone/clear reset it, new builds it: %s" % writers,
              "has_finalize writer table changed: %s (expected %s)" % (writers, expect))
    pop = F.fn(SH + "StrandHeap::pop")
    sw = [x for x in pop.discr_switches("command::Priority")]
    ok = False
    if sw:
        fin_t, _ = pop.variant_edge(sw[0], "Finalize")
        st = pop.field_stores("has_finalize")
        somes = [s for s in pop.stmts() if s.rv_kind() == "agg" and s.rv[1].get("variant") == "Some" and s.place.local == 0]
        ok = bool(st) and all(pop.dominates(fin_t, s.bb) for s in st) and pat.must_pass(pop, fin_t, [s.bb for s in st])
    rep.check(ok, "pop|clears-flag-with-finalize", "K1 must-pass-through", "popping the finalize strand clears has_finalize on every path", site=pop.site())
    lone = F.fn(SH + "StrandHeap::lone")
    st = lone.field_stores("has_finalize")
    hp = [c for c in lone.calls if c.is_("BinaryHeap::pop")]
    rep.check(bool(st) and bool(hp) and all(lone.dominates(s.bb, h.bb) for s in st for h in hp), "lone|clears-flag", "K1 must-pass-through",
              "lone() clears the flag before popping the last strand", site=lone.site())
    clr = F.fn(SH + "StrandHeap::clear")
    rep.check(bool(clr.field_stores("has_finalize")) and any(c.is_("BinaryHeap::clear") for c in clr.calls), "clear|clears-flag", "K1 must-pass-through",
              "clear() empties the heap and the flag together", site=clr.site())
    # R4
    br = F.fn("aranya_runtime::client::braiding::braid")
    sp = [c for c in br.calls if c.is_(SH + "StrandHeap::push")]
    rep.floor("strands.push sites in braid()", len(sp), 2)
    for c in sp:
        e = pat.err_edge(br, c)
        rep.check(e is not None and not any(x.bb in br.reachable(e[1]) for x in br.calls if x.name in ("push",) and x is not c and "BraidResult" in (x.path or "")),
                  "braid|push-error-propagates", "K2 err-edge action", "a strands.push error leaves braid() through `?`", site=c.site())
    cm = F.fn(rt.TX + "Transaction::commit")
    eb = [c for c in cm.calls if c.is_(rt.TX + "evaluate_braid")]
    ch = [c for c in cm.calls if c.name == "commit_heads"]
    ok = len(eb) == 1 and bool(ch)
    if ok:
        e = pat.err_edge(cm, eb[0])
        ok = e is not None and not pat.unreachable_from(cm, e[1], ch)
    rep.check(ok, "commit|no-commit_heads-after-braid-error", "K2 err-edge action",
              "commit_heads is unreachable from the Err edge of evaluate_braid", site=cm.site())
    am = F.fn(rt.TX + "Transaction::add_merge")
    eb = [c for c in am.calls if c.is_(rt.TX + "evaluate_braid")]
    ok = len(eb) == 1
    if ok:
        e = pat.err_edge(am, eb[0])
        r = am.reachable(e[1]) if e else set()
        muts = [c for c in am.calls if c.name in ("remove", "insert") and am.derives_from_field(c.args[0], "heads") and c.bb in r]
        inst = [s for s in am.field_stores("perspective") + am.field_stores("phead") if s.bb in r]
        ok = e is not None and not muts and not inst
    rep.check(ok, "add_merge|no-state-change-after-braid-error", "K2 err-edge action",
              "no self.heads mutation / perspective installation is reachable from evaluate_braid's Err edge", site=am.site())
    # ... and none of the merged tips is retired *before* the braid's outcome is known either: every removal
    # from self.heads in add_merge sits on the Ok edge of evaluate_braid (a merge refused with
    # ParallelFinalize must leave the transaction's tips as they were, or a later commit no longer sees both finalize branches)
    if len(eb) == 1:
        oe = am.outcome_edges(eb[0])
        okt = oe["Ok"][1] if "Ok" in oe else (oe["Continue"][1] if "Continue" in oe else None)
        # (flushing the in-flight perspective first *adds* a tip and is fine; what must wait is the removal of the merged tips)
        muts_all = [c for c in am.calls if c.name in ("remove", "clear", "retain", "pop_first", "pop_last", "split_off") and am.derives_from_field(c.args[0], "heads")]
        early = [c.site() for c in muts_all if okt is None or not am.dominates(okt, c.bb)]
        rep.check(bool(muts_all) and not early, "add_merge|tips-change-only-after-braid-succeeded", "K2 guarded-by",
                  "every removal from self.heads in add_merge lies on the Ok edge of evaluate_braid (%d sites)" % len(muts_all),
                  "Transaction::add_merge changes the transaction's tips before evaluate_braid has succeeded (%s): when the merge is refused (ParallelFinalize) the tips are already "
                  "gone and a later commit of the same transaction no longer detects the concurrent finalize commands" % ", ".join(early), am.site())
    priority_order_rule(F, rep)


def priority_order_rule(F, rep):
    """R5: the braid pops the *largest* key first (Strand's Ord is the reversed key comparison, C01-R3), so
    'a finalize command comes before everything concurrent with it' needs Finalize to compare above Basic(_)
    and Merge, and below only Init: Priority's Ord must be the derived one over this declaration order."""
    a = F.adt("aranya_runtime::command::Priority")
    names = [v["name"] for v in a["variants"]] if a else []
    imps = {i["trait"]: i for i in F.impls_of("command::Priority")}
    derived = all(t in imps and imps[t].get("derived") for t in ("core::cmp::Ord", "core::cmp::PartialOrd", "core::cmp::PartialEq"))
    ok = derived and names == sorted(names, key=lambda n: ["Merge", "Basic", "Finalize", "Init"].index(n) if n in ("Merge", "Basic", "Finalize", "Init") else 99) \
        and {"Merge", "Basic", "Finalize", "Init"} <= set(names) and names.index("Basic") < names.index("Finalize") < names.index("Init") and names.index("Merge") < names.index("Basic")
    rep.check(ok, "Priority|derived-order-Merge<Basic<Finalize<Init", "K10 type fact",
              "Priority derives Ord/PartialOrd/PartialEq over the declaration order %s" % names,
              "Priority's ordering is no longer the derived order Merge < Basic(_) < Finalize < Init (declared %s, derived Ord: %s): finalize commands would not be braided ahead of the commands concurrent with them" % (names, derived))
