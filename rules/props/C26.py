"""C26 Command struct serialization round-trips and rejects bad input.

Decided (structural):
 R1 K7  writer/reader codec agreement: for every value kind the arm of
        SerializeCtx::serialize_value and the arm of DeserializeCtx::deserialize_value use paired
        primitives (i64/bool/str/bytes push<->take, struct<->struct, id = length byte + 32 raw
        bytes on both sides with the same ID_SIZE constant, option/result tags 0|1 mapped to
        the same variants on both sides); struct fields are visited in `def.items` order on both
        sides.
 R2 K2  reject clauses: TrailingData when bytes remain (Ok only on the empty edge); option and
        result tags other than 0|1 -> BadInput; Value::Enum only after the membership test;
        Value::String only from str::parse::<Text>() success; id length test against ID_SIZE;
        TypeKind::Never -> BadInput.
 R3 K4  no unaudited may-panic site reachable from deserialize_struct / serialize_struct.
Not decided: value-level round-trip equality (follows from R1 + postcard's own codecs, trusted)."""
from rules.core import k4
from rules.core.facts import Operand

CRATES = ["aranya_policy_vm", "aranya_policy_module", "aranya_policy_ast", "aranya_policy_text", "aranya_id"]

# value kind -> (writer primitives that must appear, reader primitives that must appear)
PAIRS = {
    "Int": (("Int",), ("Int",), {"try_push_i64"}, {"try_take_i64"}),
    "Bool": (("Bool",), ("Bool",), {"try_push_bool"}, {"try_take_bool"}),
    "String": (("String",), ("String",), {"try_push_str"}, {"try_take_str_temp", "parse"}),
    "Bytes": (("Bytes",), ("Bytes",), {"try_push_bytes"}, {"try_take_bytes_temp"}),
    "Struct": (("Struct",), ("Struct",), {"serialize_struct"}, {"deserialize_struct"}),
    "Id": (("Id",), ("Id",), {"push", "extend_from_slice"}, {"pop", "take_exact"}),
    "Enum": (("Enum",), ("Enum",), {"try_push_i64"}, {"try_take_i64", "any"}),
    "Option": (("Option",), ("Optional",), {"push", "serialize_value"}, {"pop", "deserialize_value"}),
    "Result": (("Result",), ("Result",), {"push", "serialize_value"}, {"pop", "deserialize_value"}),
}
CODEC_NAMES = {"try_push_i64", "try_push_bool", "try_push_str", "try_push_bytes", "serialize_struct", "serialize_value",
               "push", "extend_from_slice", "try_take_i64", "try_take_bool", "try_take_str_temp", "try_take_bytes_temp",
               "deserialize_struct", "deserialize_value", "pop", "take_exact", "parse", "any", "try_push_u8", "try_take_u8",
               "try_push_u64", "try_take_u64", "try_extend", "try_take_n", "try_push_usize", "try_take_usize"}

AUDIT = {
    ("<aranya_policy_text::repr::arc::ArcStr as core::clone::Clone>::clone", "assert"): (1, "refcount overflow guard, as std Arc"),
    ("aranya_policy_text::repr::Repr::from_str", "copy_from_slice"): (1, "bytes[..len] and s.as_bytes() have equal length on the len <= MAX_INLINE branch"),
    ("aranya_policy_text::repr::Repr::from_str", "index[[u8; 22]]"): (1, "len <= MAX_INLINE == 22 on this branch"),
    ("aranya_policy_text::repr::arc::ArcStrInner::layout", "expect"): (2, "Layout::array::<u8>(len) for len <= isize::MAX; header+len fits for any real str"),
}
BUG_AUDIT = {
    "aranya_policy_text::ident::Identifier::validate": "debug_assert after the same condition was tested",
    "aranya_policy_text::repr::Repr::as_str": "debug_assert on inline length invariant",
    "aranya_policy_ast::span::Span::new": "debug_assert on compiler spans (CHA-wide)",
}


def pushes_const(f, region, val):
    for c in f.calls_in(region):
        if c.name == "push" and len(c.args) >= 2 and c.args[1].val == val:
            return c
    return None


def run(F, rep, tier):
    rep.explanation = __doc__
    sv = F.fn("aranya_policy_vm::serialize::SerializeCtx::serialize_value")
    dv = F.fn("aranya_policy_vm::serialize::DeserializeCtx::deserialize_value")
    ws = [x for x in sv.discr_switches("aranya_policy_vm::data::Value")]
    rs = [x for x in dv.discr_switches("TypeKind")]
    if len(ws) != 1 or len(rs) != 1:
        rep.anchor_missing("serialize_value / deserialize_value dispatch switch not found (%d/%d)" % (len(ws), len(rs)))
        return
    wb, warms, wother, _ = ws[0]
    rb, rarms, rother, _ = rs[0]
    value_adt = F.adt("aranya_policy_vm::data::Value")
    tk_adt = F.adt("aranya_policy_module::TypeKind")
    vnames = [v["name"] for v in value_adt["variants"]]
    tnames = [v["name"] for v in tk_adt["variants"]]
    rep.check(all(n in warms for n in vnames) and sv.is_unreachable_block(wother), "writer|exhaustive", "K7 table agreement",
              "serialize_value has an explicit arm for every Value variant (%d)" % len(vnames), site=sv.site())
    rep.check(all(n in rarms for n in tnames) and dv.is_unreachable_block(rother), "reader|exhaustive", "K7 table agreement",
              "deserialize_value has an explicit arm for every TypeKind variant (%d)" % len(tnames), site=dv.site())
    # every serialisable Value kind is in PAIRS; internal ones return InternalValue
    listed_w = {w for p in PAIRS.values() for w in p[0]}
    for n in vnames:
        if n in listed_w or n == "Unit":
            continue
        reg = sv.dominated_region(warms[n]) if n in warms else set()
        iv = [s for s in sv.stmts_in(reg) if s.rv_kind() == "agg" and s.rv[1].get("variant") == "InternalValue"]
        codec = [c for c in sv.calls_in(reg) if c.name in CODEC_NAMES]
        rep.check(bool(iv) and not codec, "writer|non-serialisable:%s" % n, "K7 table agreement",
                  "Value::%s is not in the codec table and is refused with InternalValue (writes nothing)" % n,
                  "Value::%s has a writer arm that is not in the writer/reader pairing table" % n, sv.site())
    listed_r = {r for p in PAIRS.values() for r in p[1]}
    for n in tnames:
        if n in listed_r or n == "Unit":
            continue
        reg = dv.dominated_region(rarms[n]) if n in rarms else set()
        bad = [s for s in dv.stmts() if s.rv_kind() == "agg" and s.rv[1].get("variant") == "BadInput" and s.bb in dv.reachable(rarms.get(n, 0), cut_blocks=set())]
        codec = [c for c in dv.calls_in(reg) if c.name in CODEC_NAMES]
        vals = [s for s in dv.stmts_in(reg) if s.rv_kind() == "agg" and s.rv[1].get("adt", "").endswith("data::Value")]
        rep.check(not codec and not vals and bool(bad), "reader|non-deserialisable:%s" % n, "K2 reject clause",
                  "TypeKind::%s reads nothing, builds no value and returns BadInput" % n,
                  "TypeKind::%s has a reader arm that is not in the pairing table" % n, dv.site())
    for kind, (wv, rv, wprims, rprims) in PAIRS.items():
        wreg = set()
        for n in wv:
            if n in warms:
                wreg |= sv.dominated_region(warms[n])
        rreg = set()
        for n in rv:
            if n in rarms:
                rreg |= dv.dominated_region(rarms[n])
        wcalls = {c.name for c in sv.calls_in(wreg) if c.name in CODEC_NAMES}
        rcalls = {c.name for c in dv.calls_in(rreg) if c.name in CODEC_NAMES}
        for cl in F.closures_of(dv):
            pass
        rep.check(wcalls == wprims, "codec|writer:%s" % kind, "K7 table agreement",
                  "writer arm for %s uses exactly %s" % (kind, sorted(wprims)),
                  "writer arm for %s uses %s, table says %s" % (kind, sorted(wcalls), sorted(wprims)), sv.site())
        rep.check(rcalls == rprims, "codec|reader:%s" % kind, "K7 table agreement",
                  "reader arm for %s uses exactly %s" % (kind, sorted(rprims)),
                  "reader arm for %s uses %s, table says %s" % (kind, sorted(rcalls), sorted(rprims)), dv.site())
        # the constructed value is of the same kind
        built = {s.rv[1].get("variant") for s in dv.stmts_in(rreg) if s.rv_kind() == "agg" and s.rv[1].get("adt", "").endswith("data::Value")}
        if kind == "Option":
            # Value::NONE const or Value::Option
            consts = [s for s in dv.stmts_in(rreg) if s.rv_kind() == "use" and Operand(s.rv[1]).const is not None and "Value::NONE" in (Operand(s.rv[1]).const.get("dbg") or "")]
            rep.check(built <= {"Option"} and (bool(consts) or "Option" in built), "codec|reader-builds:%s" % kind, "K7 table agreement",
                      "reader arm builds Value::Option / Value::NONE", site=dv.site())
        else:
            rep.check(built == {wv[0]}, "codec|reader-builds:%s" % kind, "K7 table agreement",
                      "reader arm for %s builds Value::%s (built: %s)" % (kind, wv[0], sorted(built)), site=dv.site())

    # --- tags: Option
    wreg = sv.dominated_region(warms["Option"])
    osw = [x for x in sv.discr_switches("option::Option") if x[0] in wreg]
    rreg = dv.dominated_region(rarms["Optional"])
    ok = False
    if len(osw) == 1:
        _, oarms, _, _ = osw[0]
        none_c = pushes_const(sv, sv.dominated_region(oarms["None"]), 0)
        some_c = pushes_const(sv, sv.dominated_region(oarms["Some"]), 1)
        some_rec = any(c.name == "serialize_value" for c in sv.calls_in(sv.dominated_region(oarms["Some"])))
        none_rec = any(c.name == "serialize_value" for c in sv.calls_in(sv.dominated_region(oarms["None"])))
        ok = bool(none_c and some_c and some_rec and not none_rec)
    rep.check(ok, "tags|writer:Option", "K7 table agreement", "writer: None -> tag 0, Some -> tag 1 then the payload", site=sv.site())
    ok = tag_switch(dv, rreg, {0: ("none", False), 1: ("Some", True)}, rep, "Option")
    # --- tags: Result
    wreg = sv.dominated_region(warms["Result"])
    rsw = [x for x in sv.discr_switches("result::Result") if x[0] in wreg]
    ok = False
    if len(rsw) == 1:
        _, a, _, _ = rsw[0]
        okc = pushes_const(sv, sv.dominated_region(a["Ok"]), 0)
        errc = pushes_const(sv, sv.dominated_region(a["Err"]), 1)
        ok = bool(okc and errc) and all(any(c.name == "serialize_value" for c in sv.calls_in(sv.dominated_region(a[k]))) for k in ("Ok", "Err"))
    rep.check(ok, "tags|writer:Result", "K7 table agreement", "writer: Ok -> tag 0, Err -> tag 1, each followed by the payload", site=sv.site())
    tag_switch(dv, dv.dominated_region(rarms["Result"]), {0: ("Ok", True), 1: ("Err", True)}, rep, "Result")

    # --- Id: same ID_SIZE constant on both sides
    wreg = sv.dominated_region(warms["Id"])
    wid = [c for c in sv.calls_in(wreg) if c.name == "push" and c.args[1].const is not None and (c.args[1].const.get("def") or c.args[1].const.get("dbg") or "").endswith("ID_SIZE")]
    rreg = dv.dominated_region(rarms["Id"])
    idc = [c for c in dv.cmp_switches() if c["bb"] in rreg and any(o.const is not None and (o.const.get("def") or o.const.get("dbg") or "").endswith("ID_SIZE") for o in (c["a"], c["b"]))]
    ok = False
    if len(idc) == 1:
        c = idc[0]
        te = [x for x in dv.calls_in(rreg) if x.name == "take_exact"]
        bad = [s for s in dv.stmts() if s.rv_kind() == "agg" and s.rv[1].get("variant") == "BadInput" and s.bb in dv.reachable(c["ne"]) and not dv.dominates(c["eq"], s.bb)]
        ok = bool(te) and all(dv.dominates(c["eq"], x.bb) for x in te) and bool(bad)
    rep.check(bool(wid) and ok, "codec|id-length", "K2 reject clause",
              "writer emits ID_SIZE then 32 bytes; reader rejects a length byte != ID_SIZE with BadInput before take_exact", site=dv.site())
    c32 = F.consts.get("aranya_policy_vm::serialize::ID_SIZE", {}).get("val")
    rep.check(c32 == 32, "codec|ID_SIZE==32", "K7 table agreement", "ID_SIZE evaluates to 32 (found %s)" % c32)

    # --- Enum membership
    rreg = dv.dominated_region(rarms["Enum"])
    anyc = [c for c in dv.calls_in(rreg) if c.name == "any"]
    ok = False
    if len(anyc) == 1:
        oe = dv.outcome_edges(anyc[0])
        enums = [s for s in dv.stmts_in(rreg) if s.rv_kind() == "agg" and s.rv[1].get("variant") == "Enum"]
        ok = "true" in oe and bool(enums) and all(dv.dominates(oe["true"][1], s.bb) for s in enums)
        # the tested value is the taken i64 and is what goes in the Value
    rep.check(ok, "reject|enum-membership", "K2 reject clause", "Value::Enum is built only on the true edge of variants.any(|v| v == x)", site=dv.site())
    # --- String from parse
    rreg = dv.dominated_region(rarms["String"])
    pc = [c for c in dv.calls_in(rreg) if c.name == "parse"]
    ok = False
    if len(pc) == 1:
        oe = dv.outcome_edges(pc[0])
        strs = [s for s in dv.stmts_in(rreg) if s.rv_kind() == "agg" and s.rv[1].get("variant") == "String"]
        ok = "Continue" in oe and bool(strs) and all(dv.dominates(oe["Continue"][1], s.bb) for s in strs) and "Text" in (pc[0].gargs or "")
    rep.check(ok, "reject|string-parse", "K2 reject clause", "Value::String is built only from a successful str::parse::<Text>() (NUL check)", site=dv.site())

    # --- TrailingData
    ds = F.fn("aranya_policy_vm::serialize::deserialize_struct")
    ie = [c for c in ds.calls if c.name == "is_empty"]
    ok = False
    if len(ie) == 1:
        oe = ds.outcome_edges(ie[0], passthrough=("Not::not",))
        if not oe:
            # `!is_empty` may compile to a Not statement
            al = {ie[0].dest.local}
            for s in ds.stmts():
                if s.rv_kind() == "un" and s.rv[1] == "Not" and Operand(s.rv[2]).place is not None and Operand(s.rv[2]).place.local in al:
                    for b in range(ds.nblocks):
                        sw = ds.switch_on(b)
                        if sw and sw[0].place is not None and sw[0].place.local == s.place.local:
                            # switch on !empty: 0 -> empty
                            oe = {"true": (b, sw[1].get(0)), "false": (b, sw[2])}
        if oe:
            empty_t = oe["true"][1]
            oks = [s for s in ds.stmts() if s.rv_kind() == "agg" and s.rv[1].get("variant") == "Ok" and s.place.local == 0]
            tds = [s for s in ds.stmts() if s.rv_kind() == "agg" and s.rv[1].get("variant") == "TrailingData"]
            ok = bool(oks) and bool(tds) and all(ds.dominates(empty_t, s.bb) for s in oks) and not any(ds.dominates(empty_t, s.bb) for s in tds)
    rep.check(ok, "reject|trailing-data", "K2 reject clause", "Ok(struct) only on the `remaining bytes empty` edge; otherwise TrailingData", site=ds.site())

    # --- struct field order: both sides iterate def.items
    for f, nm in ((F.fn("aranya_policy_vm::serialize::SerializeCtx::serialize_struct"), "writer"),
                  (F.fn("aranya_policy_vm::serialize::DeserializeCtx::deserialize_struct"), "reader")):
        its = [c for c in f.calls if c.name == "into_iter"]
        ok = False
        for c in its:
            if f.derives_from_field(c.args[0], "items"):
                ok = True
        rep.check(ok and len(its) == 1, "order|%s-iterates-def.items" % nm, "K5 sibling agreement",
                  "%s visits struct fields by iterating the definition's `items` (schema order)" % nm, site=f.site())

    # --- K4
    entries = [ds, F.fn("aranya_policy_vm::serialize::serialize_struct"), F.fn("aranya_policy_vm::machine::Machine::deserialize_struct"),
               F.fn("aranya_policy_vm::machine::Machine::serialize_struct")]
    k4.run_k4(F, rep, entries, AUDIT, BUG_AUDIT)


def tag_switch(dv, region, table, rep, kind):
    """In `region` find the switch on the popped tag byte; check arms and default."""
    pops = [c for c in dv.calls_in(region) if c.name == "pop"]
    ok = False
    detail = ""
    if len(pops) == 1:
        al = dv.forward_aliases(pops[0].dest.local, through_calls=("Try::branch",))
        # tag local: Continue payload of the branch
        tagl = set()
        for s in dv.stmts_in(region):
            if s.rv_kind() == "use" and s.place is not None and not s.place.proj:
                o = Operand(s.rv[1])
                if o.place is not None and o.place.local in al | tagl:
                    tagl.add(s.place.local)
        for b in region:
            sw = dv.switch_on(b)
            if sw and sw[0].place is not None and sw[0].place.local in tagl and not sw[0].place.proj:
                arms, other = sw[1], sw[2]
                if set(arms.keys()) != set(table.keys()):
                    detail = "tag arms %s" % sorted(arms.keys())
                    break
                good = True
                for v, (variant, rec) in table.items():
                    reg = dv.dominated_region(arms[v])
                    has_rec = any(c.name == "deserialize_value" for c in dv.calls_in(reg))
                    if variant == "none":
                        built = any(s.rv_kind() == "use" and Operand(s.rv[1]).const is not None and "NONE" in (Operand(s.rv[1]).const.get("dbg") or "") for s in dv.stmts_in(reg)) \
                            or any(s.rv_kind() == "agg" and s.rv[1].get("variant") == "None" for s in dv.stmts_in(reg))
                    else:
                        built = any(s.rv_kind() == "agg" and s.rv[1].get("variant") == variant for s in dv.stmts_in(reg))
                    if has_rec != rec or not built:
                        good = False
                        detail = "tag %d: builds %s=%s recursion=%s" % (v, variant, built, has_rec)
                dreg = dv.reachable(other, cut_blocks=set(arms.values()))
                bad = any(s.rv_kind() == "agg" and s.rv[1].get("variant") == "BadInput" for s in dv.stmts_in(dreg))
                novalue = not any(c.name == "deserialize_value" for c in dv.calls_in(dreg))
                ok = good and bad and novalue
                if not (bad and novalue):
                    detail = "default arm does not reject"
                break
    rep.check(ok, "tags|reader:%s" % kind, "K7 table agreement",
              "reader: tag 0/1 map to the same variants as the writer; any other tag -> BadInput",
              "reader tag table for %s disagrees with the writer: %s" % (kind, detail), dv.site())
    return ok
