"""C13 Reverting to a checkpoint is exact.

Decided (the pairing beliefs revert relies on; structural):
 Graph perspective (LinearPerspective):
 R1 K2  revert's early Ok is guarded by `index == commands.len()` AND `current_updates.is_empty()`.
 R2 K1  the other Ok exit passed commands.truncate, facts.clear, current_updates.clear and the
        replay (apply_updates) of the kept commands' updates.
 R3 K1  every QueryMut write on LinearPerspective pushes the same write onto current_updates.
 R4 K6  checkpoint() is commands.len(); add_command moves current_updates into the command.
 Session (SessionPerspective):
 R5 K1  every QueryMut write pushes (name, keys, value) onto session.fact_log before touching
        current_facts; nothing else writes fact_log or current_facts except revert.
 R6 K2  revert's early Ok is guarded by `index == fact_log.len()`; every other Ok exit truncates the
        log, clears the map and replays the log; checkpoint() is fact_log.len().
 R7 K5  the replay is the live write: the overlay mutators revert applies per log entry are the ones insert /
        delete apply (entry / or_default / insert - a logged delete is re-inserted as a tombstone, never
        removed: the tombstone is what hides a fact of the graph), and every log entry reaches the insert.
Not decided: map equality after arbitrary interleavings (value-level)."""
from rules.core import pat
from rules.core.facts import Operand, Place

CRATES = ["aranya_runtime"]
THOROUGH_CONFIGS = ["lowmem"]   # thorough tier: the same rules on the low-mem-usage build


def impl_fn(F, trait_suffix, adt_suffix, name):
    c = [x for x in F.fns if x.name == name and x.trait and x.trait.endswith(trait_suffix) and x.self_adt and x.self_adt.endswith(adt_suffix)]
    if len(c) != 1:
        from rules.core.facts import MissingAnchor
        raise MissingAnchor("impl %s::%s for %s: found %d" % (trait_suffix, name, adt_suffix, len(c)))
    return c[0]


def run(F, rep, tier):
    rep.explanation = __doc__
    LP = "linear::LinearPerspective"
    rv = impl_fn(F, "storage::Revertable", LP, "revert")
    cs = rv.cmp_switches()
    idx = [c for c in cs if c["op"] in ("Eq", "Ne") and (rv.derives_from_field(c["a"], "index") or rv.derives_from_field(c["b"], "index"))]
    ie = [c for c in rv.calls if c.name == "is_empty" and rv.derives_from_field(c.args[0], "current_updates")]
    oks = pat.ok_returns(rv)
    trunc = [c for c in rv.calls if c.name == "truncate"]
    clears = [c for c in rv.calls if c.name == "clear"]
    apply_ = [c for c in rv.calls if c.name == "apply_updates"]
    early = [s for s in oks if not any(rv.dominates(t.bb, s.bb) for t in trunc)]
    late = [s for s in oks if s not in early]
    ok = False
    if len(idx) == 1 and len(ie) == 1 and early:
        oe = rv.outcome_edges(ie[0])
        ok = "true" in oe and all(rv.dominates(idx[0]["eq"], s.bb) and rv.dominates(oe["true"][1], s.bb) for s in early)
        # index compared with commands.len()
        other = idx[0]["b"] if rv.derives_from_field(idx[0]["a"], "index") else idx[0]["a"]
        ok = ok and rv.derives_from_field(other, "commands")
    rep.check(ok, "LinearPerspective::revert|early-return-guard", "K2 guarded-by",
              "early Ok only when checkpoint.index == commands.len() and current_updates.is_empty()",
              "LinearPerspective::revert can return early while fact writes made after the checkpoint are still pending", rv.site())
    ok = bool(late) and bool(trunc) and len(clears) >= 2 and bool(apply_)
    if ok:
        flds = set()
        for c in clears:
            for fld in ("facts", "current_updates"):
                if rv.derives_from_field(c.args[0], fld):
                    flds.add(fld)
        ok = flds == {"facts", "current_updates"} and all(all(rv.dominates(c.bb, s.bb) for c in trunc + clears) for s in late)
        ok = ok and any(rv.derives_from_field(c.args[0], "commands") for c in trunc) and any(rv.derives_from_field(c.args[1], "index") for c in trunc)
        # replay iterates self.commands and feeds data.updates
        ok = ok and any(rv.derives_from_field(c.args[1], "updates") for c in apply_)
    rep.check(ok, "LinearPerspective::revert|rebuild", "K1 must-pass-through",
              "the rebuilding exit truncates commands to the checkpoint, clears facts and current_updates, and replays each kept command's updates",
              site=rv.site())
    n = 0
    for name in ("insert", "delete"):
        x = impl_fn(F, "storage::QueryMut", LP, name)
        n += 1
        pushes = [c for c in x.calls if c.name == "push" and x.derives_from_field(c.args[0], "current_updates")]
        fw = [c for c in x.calls if c.name == name and x.derives_from_field(c.args[0], "facts")]
        oks2 = pat.ok_returns(x)
        rep.check(bool(pushes) and bool(fw) and all(any(x.dominates(p.bb, s.bb) for p in pushes) for s in oks2), "LinearPerspective::%s|logs-update" % name,
                  "K1 pairing", "the write goes to facts.%s and is pushed onto current_updates before Ok" % name,
                  "LinearPerspective::%s changes facts without recording the update (revert's early return relies on it)" % name, x.site())
    cp = impl_fn(F, "storage::Revertable", LP, "checkpoint")
    rep.check(any(c.name == "len" and cp.derives_from_field(c.args[0], "commands") for c in cp.calls), "LinearPerspective::checkpoint|commands.len", "K6 provenance",
              "checkpoint().index is commands.len()", site=cp.site())
    ac = impl_fn(F, "storage::Perspective", LP, "add_command")
    rep.check(any(c.is_("mem::take") and ac.derives_from_field(c.args[0], "current_updates") for c in ac.calls), "LinearPerspective::add_command|takes-updates", "K6 provenance",
              "add_command moves current_updates into the stored command (leaving it empty)", site=ac.site())

    # Session
    SP = "session::SessionPerspective"
    for name in ("insert", "delete"):
        x = impl_fn(F, "storage::QueryMut", SP, name)
        pushes = [c for c in x.calls if c.name == "push" and x.derives_from_field(c.args[0], "fact_log")]
        mm = [c for c in x.calls if c.name == "make_mut" and x.derives_from_field(c.args[0], "current_facts")]
        ok = bool(pushes) and bool(mm) and all(x.dominates(p.bb, m.bb) for p in pushes for m in mm)
        rep.check(ok, "SessionPerspective::%s|log-before-map" % name, "K1 pairing",
                  "fact_log.push(..) dominates the write to current_facts",
                  "SessionPerspective::%s writes current_facts without logging it first" % name, x.site())
    # who else writes fact_log / current_facts (mutable borrows) in session.rs
    writers = set()
    for f in F.fns_in_file("client/session.rs"):
        if f.derived:
            continue
        for s in f.stmts():
            if s.rv_kind() == "ref" and s.rv[1] == "mut":
                p = Place(s.rv[2])
                if "fact_log" in p.fields() or "current_facts" in p.fields():
                    writers.add(f.path)
            if s.place is not None and s.place.proj and s.place.last_field() in ("fact_log", "current_facts") and s.place.proj[-1][0] == "f":
                writers.add(f.path)
    allowed_suffix = ("QueryMut>::insert", "QueryMut>::delete", "Revertable>::revert", "Session::new")
    bad = [w for w in writers if not w.endswith(allowed_suffix)]
    rep.check(not bad and len(writers) >= 3, "Session|log-and-map-writers", "K3 who-may-write",
              "fact_log / current_facts are written only by SessionPerspective::{insert, delete, revert} (and Session::new): %s" % sorted(w.split("::")[-1] for w in writers),
              "unexpected writer of the session fact log / overlay: %s" % bad, None)
    srv = impl_fn(F, "storage::Revertable", SP, "revert")
    cs = srv.cmp_switches()
    idx = [c for c in cs if c["op"] in ("Eq", "Ne") and (srv.derives_from_field(c["a"], "index") or srv.derives_from_field(c["b"], "index"))]
    oks = pat.ok_returns(srv)
    trunc = [c for c in srv.calls if c.name == "truncate" and srv.derives_from_field(c.args[0], "fact_log")]
    clears = [c for c in srv.calls if c.name == "clear"]
    early = [s for s in oks if not any(srv.dominates(t.bb, s.bb) for t in trunc)]
    late = [s for s in oks if s not in early]
    ok = len(idx) == 1 and bool(early) and all(srv.dominates(idx[0]["eq"], s.bb) for s in early)
    if ok:
        other = idx[0]["b"] if srv.derives_from_field(idx[0]["a"], "index") else idx[0]["a"]
        ok = srv.derives_from_field(other, "fact_log")
    rep.check(ok, "SessionPerspective::revert|early-return-guard", "K2 guarded-by", "early Ok only when checkpoint.index == fact_log.len()", site=srv.site())
    stores = srv.field_stores("current_facts")
    replay = [c for c in srv.calls if c.name == "insert"]
    it = [c for c in srv.calls if c.name in ("iter", "into_iter") and srv.derives_from_field(c.args[0], "fact_log")]
    ok = bool(late) and bool(trunc) and bool(clears) and bool(stores) and bool(replay) and bool(it) \
        and all(all(srv.dominates(c.bb, s.bb) for c in trunc + clears) for s in late) and all(any(srv.dominates(x.bb, s.bb) for x in stores) for s in late) \
        and all(srv.dominates(t.bb, i.bb) for t in trunc for i in it)
    rep.check(ok, "SessionPerspective::revert|rebuild", "K1 must-pass-through",
              "the rebuilding exit truncates fact_log, clears the map, replays the (truncated) log and installs the rebuilt map", site=srv.site())
    MUT = {"insert", "remove", "remove_entry", "entry", "or_default", "or_insert", "or_insert_with", "and_modify", "retain", "pop_first", "pop_last",
           "append", "extend", "split_off", "get_mut", "values_mut", "iter_mut", "first_entry", "last_entry"}

    def muts(f):
        return {c.name for c in f.calls if c.name in MUT and c.path and ("btree" in c.path.lower() or "BTreeMap" in c.path)}
    live = set()
    for name in ("insert", "delete"):
        live |= muts(impl_fn(F, "storage::QueryMut", SP, name))
    rm = muts(srv)
    nx = [c for c in srv.calls if c.is_("Iterator::next")]
    ok = "insert" in live and "insert" in rm and rm <= live and len(nx) == 1
    if ok:
        e = srv.outcome_edges(nx[0]).get("Some")
        ok = e is not None and pat.must_pass(srv, e[1], [c.bb for c in replay], exits=[nx[0].bb] + list(srv.returns()))
    rep.check(ok, "SessionPerspective::revert|replay-is-the-live-write", "K5 sibling agreement",
              "revert replays every log entry with the overlay mutators of insert/delete (%s); no entry skips the insert" % sorted(rm),
              "SessionPerspective::revert does not replay the log the way insert/delete wrote it (mutators %s vs live %s, or an entry bypasses the insert): a logged delete must come "
              "back as a tombstone - removing the key instead un-hides the fact of the graph that an accepted command deleted" % (sorted(rm), sorted(live)), srv.site())
    scp = impl_fn(F, "storage::Revertable", SP, "checkpoint")
    rep.check(any(c.name == "len" and scp.derives_from_field(c.args[0], "fact_log") for c in scp.calls), "SessionPerspective::checkpoint|fact_log.len", "K6 provenance",
              "checkpoint().index is fact_log.len()", site=scp.site())
