"""C18 Sync message handling never panics.

Decided (structural, every byte string / every decoded message):
 R1 K4  no unaudited may-panic site (hard or overflow class) reachable from
        SyncIncoming::decode, SubscribeResponse::decode, SyncRequester::{receive,
        receive_push, poll}, SyncResponder::{receive, poll, push, start_session},
        PeerCache::add_command through the sync module, the traversal queue, graph search
        and segment accessors. Payload slicing in the requester therefore uses only
        `get(range)` with checked bounds (an Index or unchecked add would be a new site).
 R2 K2  in get_sync_commands every state mutation and the `Some(commands)` result are
        dominated by the session-id equality edge; the commands are accepted only on the
        `response_index == next_message_index` edge and after the state test.
 R3 K2  the belief behind SyncResponder::session_id()'s `assume("session id is set")` (called by poll, get_next and
        push in every non-idle state): SyncResponder::dispatch moves `state` only where `session_id` is known to
        be Some - every path from its entry to a `self.state = ..` store passes a `self.session_id = Some(..)` store
        or the not-None edge of a test of that field.
Not decided: panics inside postcard/heapless/serde (trusted base); panics that depend on
the replica's own storage contents below the Storage/Segment traits' file-backed
implementation (not a function of the received bytes; listed as boundary)."""
from rules.core.facts import Place
from rules.core import k4, pat

CRATES = ["aranya_runtime"]
THOROUGH_CONFIGS = ["lowmem"]   # thorough tier: the same rules on the low-mem-usage build

ENTRIES = [
    "aranya_runtime::sync::SyncIncoming::decode",
    "aranya_runtime::sync::SubscribeResponse::decode",
    "aranya_runtime::sync::requester::SyncRequester::receive",
    "aranya_runtime::sync::requester::SyncRequester::receive_push",
    "aranya_runtime::sync::requester::SyncRequester::poll",
    "aranya_runtime::sync::requester::SyncRequester::subscribe",
    "aranya_runtime::sync::requester::SyncRequester::unsubscribe",
    "aranya_runtime::sync::responder::SyncResponder::receive",
    "aranya_runtime::sync::responder::SyncResponder::poll",
    "aranya_runtime::sync::responder::SyncResponder::push",
    "aranya_runtime::sync::responder::SyncResponder::start_session",
    "aranya_runtime::sync::responder::PeerCache::add_command",
]

SCOPE = [
    "aranya_runtime::sync::", "aranya_runtime::storage::TraversalQueue", "aranya_runtime::storage::Storage::",
    "aranya_runtime::storage::search", "aranya_runtime::storage::linear::LinearSegment",
    "aranya_runtime::storage::Location", "aranya_runtime::storage::MaxCut", "aranya_runtime::command",
    "aranya_runtime::storage::Segment", "aranya_runtime::address",
]

TQ = "partition <= entries.len() is TraversalQueue's invariant (C21: value-level, not decided here); "
AUDIT = {
    ("<aranya_runtime::storage::linear::LinearSegment as aranya_runtime::storage::Segment>::get_command", "index[Vec1]"):
        (1, "commands[prev] with prev = cmd_idx-1 and cmd_idx obtained from commands.get(cmd_idx) two lines above"),
    ("<aranya_runtime::vm_policy::protocol::VmProtocol as aranya_runtime::command::Command>::policy::{closure#0}", "index[[u8; 8]]"):
        (1, "reached through wide CHA of Command::policy; full-range index of a fixed array"),
    ("aranya_runtime::storage::TraversalQueue::cover_up_to", "index[Vec]"): (2, TQ + "i comes from position()"),
    ("aranya_runtime::storage::TraversalQueue::cover_up_to", "slice_swap"): (1, TQ + "i from position(), partition-1 < len"),
    ("aranya_runtime::storage::TraversalQueue::drain_above", "index[Vec]"): (2, TQ + "loop guards i < partition / i < len"),
    ("aranya_runtime::storage::TraversalQueue::drain_above", "vec_swap_remove"): (1, "loop guard i < entries.len()"),
    ("aranya_runtime::storage::TraversalQueue::drain_all", "index[Vec]"): (1, TQ + "i in 0..partition"),
    ("aranya_runtime::storage::TraversalQueue::pop_covered", "vec_swap_remove"): (1, "i from enumerate() over entries"),
    ("aranya_runtime::storage::TraversalQueue::push_covered", "index[Vec]"): (3, "i from position() over entries"),
    ("aranya_runtime::storage::TraversalQueue::push_covered", "slice_swap"): (3, TQ + "i from position(); partition(-1) within len; last = len-1 after push"),
    ("aranya_runtime::storage::TraversalQueue::remove_uncovered", "slice_swap"): (1, TQ + "callers pass i < partition"),
    ("aranya_runtime::storage::TraversalQueue::remove_uncovered", "vec_swap_remove"): (1, TQ + "partition-1 < len"),
    ("aranya_runtime::sync::responder::SyncResponder::find_needed_segments", "BoundsCheck"):
        (1, "have_locations[scan] with scan in have_cursor..have_locations.len()"),
    ("aranya_runtime::sync::responder::SyncResponder::get_next", "copy_from_slice"):
        (1, "data_target = target.get_mut(length..length+command_data.len()) has exactly command_data.len() bytes"),
    ("aranya_runtime::sync::responder::SyncResponder::push", "copy_from_slice"):
        (1, "same: get_mut(length..total_length) with total_length = length + command_data.len()"),
    ("aranya_runtime::sync::responder::push_bounded", "BoundsCheck"): (2, "max_idx from enumerate() over v"),
    ("aranya_runtime::sync::responder::push_bounded", "expect"): (1, "v is full (push failed) hence non-empty"),
}
BUG_AUDIT = {
    "<aranya_runtime::storage::linear::LinearSegment as aranya_runtime::storage::Segment>::longest_max_cut": "max_cut + len arithmetic on stored segment (own storage)",
    "aranya_runtime::storage::Storage::is_ancestor": "debug_assert on own storage",
    "aranya_runtime::storage::TraversalQueue::cover_up_to": "partition arithmetic (TraversalQueue invariant)",
    "aranya_runtime::storage::TraversalQueue::drain_above": "partition/index arithmetic",
    "aranya_runtime::storage::TraversalQueue::push_covered": "partition arithmetic",
    "aranya_runtime::storage::TraversalQueue::remove_uncovered": "partition arithmetic",
    "aranya_runtime::storage::search_queued": "debug_assert on own storage",
    "aranya_runtime::sync::requester::SyncRequester::get_sync_commands": "next_message_index+1 overflow (u64 counter); result Vec capacity == COMMAND_RESPONSE_MAX == wire Vec capacity",
    "aranya_runtime::sync::responder::SyncResponder::find_needed_segments": "own storage lookups; max_cut arithmetic",
    "aranya_runtime::sync::responder::SyncResponder::get_commands": "own storage lookups; length arithmetic bounded by buffer sizes",
    "aranya_runtime::sync::responder::SyncResponder::get_next": "length arithmetic, message_index counter",
    "aranya_runtime::sync::responder::SyncResponder::advance": "to_send.get_mut(next_send): next_send is the loop index at which get_commands stopped inside to_send, so it is in bounds whenever a resume point is returned",
    "aranya_runtime::sync::responder::SyncResponder::poll": "state machine invariant",
    "aranya_runtime::sync::responder::SyncResponder::push": "length arithmetic, message_index counter",
    "aranya_runtime::sync::responder::SyncResponder::session_id": "session id must be set after start",
}


def session_id_belief(F, rep):
    """R3: `session_id()` is audited as unreachable-when-None; that holds only if no peer message can move the
    responder out of Idle without the session id being recorded first."""
    d = F.fn("aranya_runtime::sync::responder::SyncResponder::dispatch")
    st = d.field_stores("state")
    through = {s.bb for s in d.field_stores("session_id")}
    for c in d.calls:
        if c.name in ("is_none", "is_some") and "field:session_id" in d.origins(c.args[0], through_calls=()):
            oe = d.outcome_edges(c)
            e = oe.get("false") if c.name == "is_none" else oe.get("true")
            if e is not None:
                through.add(e[1])
    for b, arms, other, dst in d.discr_switches("option::Option"):
        src = Place(dst.rv[1])
        if "session_id" in src.fields() and "Some" in arms:
            through.add(arms["Some"])
    ok = bool(st) and bool(through) and all(pat.must_pass(d, 0, through, exits=[s.bb]) for s in st)
    rep.check(ok, "dispatch|state-moves-only-with-session-id", "K2 guarded-by",
              "all %d `self.state = ..` stores in SyncResponder::dispatch are reached only after session_id was set or found set" % len(st),
              "SyncResponder::dispatch can change `state` on a path where session_id is still None: the next poll() calls session_id(), whose "
              "`assume(\"session id is set\")` then fails (a panic under debug assertions, a Bug error and no EndSession otherwise) - one unsupported first message from a peer does it", d.site())


def run(F, rep, tier):
    rep.explanation = __doc__
    entries = [F.fn(e) for e in ENTRIES]
    k4.run_k4(F, rep, entries, AUDIT, BUG_AUDIT, scope=SCOPE)
    session_id_belief(F, rep)

    g = F.fn("aranya_runtime::sync::requester::SyncRequester::get_sync_commands")
    cs = g.cmp_switches()
    sess = [c for c in cs if g.derives_from_field(c["a"], "session_id") or g.derives_from_field(c["b"], "session_id")]
    if not sess:
        # the check may live in the callers instead - then it must guard *every* call
        callers = F.callers_of(g.path)
        unguarded = []
        for h, c in callers:
            hs = [x for x in h.cmp_switches() if h.derives_from_field(x["a"], "session_id") or h.derives_from_field(x["b"], "session_id")]
            if not any(x.get("eq") is not None and h.dominates(x["eq"], c.bb) for x in hs):
                unguarded.append("%s (%s)" % (h.path.split("::")[-1], c.site()))
        rep.check(bool(callers) and not unguarded, "get_sync_commands|session-check-on-every-entry", "K2 guarded-by",
                  "get_sync_commands is reached only behind a session-id equality check at each of its %d call sites" % len(callers),
                  "responses reach SyncRequester::get_sync_commands without a session-id check from %s: a response or push for a different session is ingested, "
                  "advances next_message_index and changes the requester's state" % ", ".join(unguarded), g.site())
        return
    if len(sess) != 1:
        rep.anchor_missing("get_sync_commands: session-id comparison not found (%d candidates)" % len(sess))
        return
    sess = sess[0]
    eq = sess["eq"]
    stores = g.field_stores("state") + g.field_stores("next_message_index")
    rep.floor("requester state mutations", len(stores), 6)
    bad = [s for s in stores if not g.dominates(eq, s.bb)]
    rep.check(not bad, "get_sync_commands|mutations-after-session-check", "K2 guarded-by",
              "all %d writes to self.state / self.next_message_index are dominated by the session-id equality edge" % len(stores),
              "requester state is mutated before/without the session-id check", g.site(bad[0].line if bad else None))
    # SessionMismatch on the inequality edge
    ne_reg = g.reachable(sess["ne"])
    mism = [s for s in g.stmts() if s.rv_kind() == "agg" and s.rv[1].get("variant") == "SessionMismatch"]
    rep.check(bool(mism) and all(s.bb in ne_reg and not g.dominates(eq, s.bb) for s in mism), "get_sync_commands|mismatch-edge", "K2 guarded-by",
              "SessionMismatch is returned on the inequality edge", site=g.site())
    # Some(result)
    somes = [s for s in g.stmts() if s.rv_kind() == "agg" and s.rv[1].get("variant") == "Some" and s.rv[1].get("adt", "").endswith("option::Option")
             and "Vec" in g.local_ty(s.place.local)]
    rep.floor("Some(commands) results", len(somes), 1)
    idx = [c for c in cs if (g.derives_from_field(c["a"], "next_message_index") or g.derives_from_field(c["b"], "next_message_index"))
           and (g.derives_from_field(c["a"], "response_index") or g.derives_from_field(c["b"], "response_index"))]
    if len(idx) != 1:
        rep.anchor_missing("get_sync_commands: response_index comparison not found (%d)" % len(idx))
        return
    idx = idx[0]
    for s in somes:
        rep.check(g.dominates(eq, s.bb) and g.dominates(idx["eq"], s.bb), "get_sync_commands|accept-guard", "K2 guarded-by",
                  "Some(commands) is dominated by session-id equality and response_index == next_message_index", site=g.site(s.line))
    # state test: SessionState error edge precedes the index check in the SyncResponse arm
    ss = [s for s in g.stmts() if s.rv_kind() == "agg" and s.rv[1].get("variant") == "SessionState"]
    rep.floor("SessionState rejections", len(ss), 3)
    # payload slicing only through get(range)
    gets = [c for c in g.calls if c.is_("slice::get")]
    rep.floor("checked payload slices", len(gets), 2)
