"""C36 Wrapped keys are authenticated and bound to their type.

Decided (AAD agreement and the diagonal type match; structural):
 R1 K5+K6 wrap_secret and unwrap_secret compute the AEAD additional data from the same tuple
        (T::ID, key id) with tuple_hash under the same tag, and pass it to seal_in_place /
        open_in_place; the stored id, nonce, tag and ciphertext of WrappedKey are exactly the values
        used for sealing, and unwrap opens with key.nonce, key.ciphertext, key.tag.
 R2 K7  unwrap_secret's match is diagonal: one arm per AlgId variant, each pairing it with the
        same-named Ciphertext variant and building the same-named RawSecret; every other
        combination returns WrongKeyType. wrap_secret maps RawSecret::X to Ciphertext::X and
        Ciphertext::alg_id maps each variant to the same-named AlgId.
 R3 K2  unwrap's match is reached only after open_in_place succeeded.
Not decided: the AEAD's authenticity itself (spideroak-crypto, trusted)."""
from rules.core import pat
from rules.core.facts import Operand, PASS_THROUGH

CRATES = ["aranya_crypto"]


def impl_fn(F, name):
    c = [f for f in F.fns if f.name == name and f.self_adt and f.self_adt.endswith("default::DefaultEngine") and f.trait and f.trait.endswith("RawSecretWrap")]
    if len(c) != 1:
        from rules.core.facts import MissingAnchor
        raise MissingAnchor("DefaultEngine::%s: found %d" % (name, len(c)))
    return c[0]


def aad_items(f, th):
    arr = [s for k, s in f.backward_sources(th.args[1].place.local, through_calls=())[1] if k == "stmt" and s.rv_kind() == "agg" and s.rv[1].get("k") == "array"]
    if len(arr) != 1:
        return None
    out = []
    for o in arr[0].operands():
        org = f.origins(o, through_calls="*")
        consts = set()
        for k, d in f.backward_sources(o.place.local, through_calls="*")[1]:
            cands = []
            if k == "call":
                cands = [a.const for a in d.args if a.const is not None]
            elif k == "stmt":
                cands = [x.const for x in d.operands() if x.const is not None]
            for c in cands:
                if any(dd.endswith("::ID") for dd in f.const_defs(c)):
                    consts.add("T::ID")
        out.append((org, consts))
    return out


def tag_of(f, th):
    for k, d in f.backward_sources(th.args[0].place.local, through_calls=())[1]:
        if k == "stmt":
            for o in d.operands():
                if o.const is not None and o.const.get("dbg", "").startswith('b"'):
                    return o.const["dbg"]
    return None


def run(F, rep, tier):
    rep.explanation = __doc__
    w = impl_fn(F, "wrap_secret")
    u = impl_fn(F, "unwrap_secret")
    info = {}
    for f, aead_call in ((w, "seal_in_place"), (u, "open_in_place")):
        th = pat.one(rep, [c for c in f.calls if c.name == "tuple_hash"], "tuple_hash in %s" % f.name, f)
        ac = pat.one(rep, [c for c in f.calls if c.name == aead_call], aead_call, f)
        if not th or not ac:
            return
        items = aad_items(f, th)
        ok = items is not None and len(items) == 2 and "T::ID" in items[0][1] and "T::ID" not in items[1][1]
        idsrc = None
        if ok:
            o1 = items[1][0]
            idsrc = "argname:id" if "argname:id" in o1 else ("field:id" if "field:id" in o1 and "argname:key" in o1 else None)
            ok = idsrc is not None
        rep.check(ok, "%s|aad-items" % f.name, "K6 field coverage",
                  "AAD = tuple_hash(tag, [T::ID, key id]) (%s)" % idsrc,
                  "%s: the additional data does not cover (T::ID, key id): %s" % (f.name, items), f.site())
        info[f.name] = (tag_of(f, th), len(items) if items else 0)
        # the AAD reaches the AEAD call (last arg)
        src = f.backward_sources(ac.args[-1].place.local, through_calls=("as_bytes", "Digest::as_bytes", "Deref::deref"))[1]
        rep.check(any(k == "call" and c is th for k, c in src), "%s|aad-passed-to-aead" % f.name, "K6 provenance",
                  "%s's additional-data argument is that tuple_hash digest" % aead_call,
                  "%s is called with additional data that is not the (T::ID, id) digest" % aead_call, ac.site())
    rep.check(info.get("wrap_secret") == info.get("unwrap_secret") and info.get("wrap_secret", (None,))[0] is not None, "aad|siblings-agree", "K5 sibling agreement",
              "wrap and unwrap use the same tag and item count: %s" % info, "wrap_secret and unwrap_secret derive the AAD differently: %s" % info)
    # WrappedKey provenance
    ag = [s for s in w.stmts() if s.rv_kind() == "agg" and s.rv[1].get("adt", "").endswith("default::WrappedKey")]
    seal = [c for c in w.calls if c.name == "seal_in_place"][0]
    ok = len(ag) == 1
    if ok:
        fl = ag[0].rv[1]["fields"]
        ops = dict(zip(fl, ag[0].operands()))
        def shares(o, call_arg):
            a = w.backward_sources(o.place.local, through_calls="*")[0]
            b = w.backward_sources(call_arg.place.local, through_calls="*")[0]
            return bool({x for x in a & b if w.local_name(x)})
        ok = "argname:id" in w.origins(ops["id"], through_calls="*") and shares(ops["nonce"], seal.args[1]) and shares(ops["ciphertext"], seal.args[2]) and shares(ops["tag"], seal.args[3])
    rep.check(ok, "wrap_secret|stored-values-are-sealed-values", "K6 provenance",
              "WrappedKey{id, nonce, ciphertext, tag} are the id bound in the AAD and the nonce/buffer/tag given to seal_in_place", site=w.site())
    opn = [c for c in u.calls if c.name == "open_in_place"][0]
    o = [u.origins(a, through_calls="*") for a in opn.args[1:4]]
    ok = "field:nonce" in o[0] and "field:ciphertext" in o[1] and "field:tag" in o[2] and all("argname:key" in x for x in o)
    rep.check(ok, "unwrap_secret|opens-stored-values", "K6 provenance", "open_in_place uses key.nonce, key.ciphertext (clone), key.tag", site=u.site())
    # R3
    oke = pat.ok_edge(u, opn)
    alg = [x for x in u.discr_switches("AlgId")]
    rep.check(oke is not None and bool(alg) and all(u.dominates(oke[1], x[0]) for x in alg), "unwrap_secret|match-after-open", "K2 guarded-by",
              "the type match happens only after open_in_place succeeded", site=u.site())
    # R2 diagonal
    algadt = F.adt("aranya_crypto::engine::AlgId")
    variants = [v["name"] for v in algadt["variants"]]
    ok = len(alg) == 1
    table = {}
    if ok:
        b, arms, other, st = alg[0]
        ok = set(arms) == set(variants)
        cts = u.discr_switches("default::Ciphertext")
        for v, t in arms.items():
            inner = [x for x in cts if x[0] in u.dominated_region(t) or x[0] == t]
            if len(inner) != 1:
                table[v] = "no-inner-match"
                ok = False
                continue
            ib, iarms, iother, ist = inner[0]
            built = set()
            for iv, it in iarms.items():
                reg = u.dominated_region(it)
                built |= {s.rv[1].get("variant") for s in u.stmts() if s.bb in reg and s.rv_kind() == "agg" and s.rv[1].get("adt", "").endswith("engine::RawSecret")}
            wr = [s for s in u.stmts() if s.bb in u.reachable(iother, cut_blocks=set(iarms.values())) and s.rv_kind() == "agg" and s.rv[1].get("variant") == "WrongKeyType"]
            table[v] = (sorted(iarms), sorted(x for x in built if x), bool(wr))
            if sorted(iarms) != [v] or built != {v} or not wr:
                ok = False
    rep.check(ok, "unwrap_secret|diagonal-match", "K7 table agreement",
              "each AlgId::X arm accepts only Ciphertext::X, builds RawSecret::X, and falls back to WrongKeyType: %s" % table,
              "unwrap_secret's (AlgId, Ciphertext) table is not diagonal: %s" % table, u.site())
    # wrap: RawSecret::X -> Ciphertext::X
    rs = [x for x in w.discr_switches("engine::RawSecret")]
    ok = len(rs) == 1
    t2 = {}
    if ok:
        b, arms, other, st = rs[0]
        for v, t in arms.items():
            reg = w.dominated_region(t)
            built = {s.rv[1].get("variant") for s in w.stmts() if s.bb in reg and s.rv_kind() == "agg" and s.rv[1].get("adt", "").endswith("default::Ciphertext")}
            t2[v] = sorted(built)
            if built != {v}:
                ok = False
        ok = ok and set(arms) == set(variants)
    rep.check(ok, "wrap_secret|variant-table", "K7 table agreement", "RawSecret::X is stored as Ciphertext::X: %s" % t2, site=w.site())
    ai = F.fn("aranya_crypto::default::Ciphertext::alg_id")
    cs = [x for x in ai.discr_switches("default::Ciphertext")]
    ok = len(cs) == 1
    t3 = {}
    if ok:
        b, arms, other, st = cs[0]
        for v, t in arms.items():
            reg = ai.dominated_region(t)
            built = {s.rv[1].get("variant") for s in ai.stmts() if s.bb in reg and s.rv_kind() == "agg" and s.rv[1].get("adt", "").endswith("engine::AlgId")}
            t3[v] = sorted(built)
            if built != {v}:
                ok = False
    rep.check(ok, "Ciphertext::alg_id|variant-table", "K7 table agreement", "Ciphertext::X reports AlgId::X: %s" % t3, site=ai.site())
