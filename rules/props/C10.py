"""C10 A graph is bound to its init command.

Decided (structural):
 R1 K2  Transaction::init: new_storage and the Ok return are dominated by the id-equality edge
        (graph_id == command.id()), the `Prior::None` edge of command.parent() and the `Some`
        edge of command.policy(); each failing edge produces InitError.
 R2 K2  Transaction::add_commands: in the `Prior::None` arm a command whose id differs from the
        graph id returns InitError (nothing is added, the counter is not bumped); the
        NoSuchStorage edge takes the first command of the batch and calls init, and an empty
        batch returns InitError.
 R3 K6  LinearStorageProvider::new_storage derives the graph id from init.commands[0].id and
        refuses an occupied entry (StorageExists) and an empty perspective.
Not decided: "re-receiving init is a no-op" rests on locate() finding it (value-level)."""
from rules.core import pat
from rules.core.facts import Operand, PASS_THROUGH

CRATES = ["aranya_runtime"]
THOROUGH_CONFIGS = ["lowmem"]   # thorough tier: the same rules on the low-mem-usage build
T = "aranya_runtime::client::transaction::Transaction::"


def run(F, rep, tier):
    rep.explanation = __doc__
    f = F.fn(T + "init")
    ns = pat.one(rep, pat.trait_calls(f, "storage::StorageProvider", "new_storage"), "new_storage", f)
    if not ns:
        return
    oks = pat.ok_returns(f)
    targets = [ns.bb] + [s.bb for s in oks]
    # id equality
    ids = [c for c in f.cmp_switches() if (f.derives_from_field(c["a"], "graph_id") or f.derives_from_field(c["b"], "graph_id"))]
    ids = pat.one(rep, ids, "graph-id comparison", f)
    if ids:
        # other operand derives from command.id()
        other = ids["b"] if f.derives_from_field(ids["a"], "graph_id") else ids["a"]
        src = [x for k, x in f.backward_sources(other.place.local, through_calls="*")[1] if k == "call"]
        rep.check(any(x.name == "id" and x.trait and x.trait.endswith("command::Command") for x in src), "init|id-compare-operand", "K6 provenance",
                  "the graph id is compared with command.id()", site=f.site())
        rep.check(all(f.dominates(ids["eq"], b) for b in targets), "init|id-guard", "K2 guarded-by",
                  "new_storage and Ok are dominated by graph_id == command.id()",
                  "Transaction::init can create a graph whose id differs from its init command", f.site())
        ie = [s for s in pat.err_aggs(f, "InitError") if s.bb in f.reachable(ids["ne"]) and not f.dominates(ids["eq"], s.bb)]
        rep.check(bool(ie), "init|id-mismatch-error", "K2 guarded-by", "id mismatch returns InitError", site=f.site())
    # parent == Prior::None
    pc = [c for c in f.calls if c.name == "parent" and c.trait and c.trait.endswith("command::Command")]
    if not pc:
        rep.violation("init|parentless-guard", "K2 guarded-by", "Transaction::init never inspects command.parent(): an init command with a parent would be accepted", f.site())
    pc = pc[0] if len(pc) == 1 else None
    if pc:
        sws = [x for x in f.discr_switches("Prior") if "None" in x[1]]
        ok = False
        if sws:
            none_t, bad_t = f.variant_edge(sws[0], "None")
            ok = all(f.dominates(none_t, t) for t in targets)
            ie = [s for s in pat.err_aggs(f, "InitError") if any(s.bb in f.reachable(t, cut_blocks={none_t}) for t in bad_t)]
            ok = ok and bool(ie)
        rep.check(ok, "init|parentless-guard", "K2 guarded-by",
                  "new_storage and Ok are dominated by the Prior::None edge of command.parent(); other priors return InitError",
                  "Transaction::init accepts an init command that has a parent", f.site())
    # policy Some
    pol = [c for c in f.calls if c.name == "policy" and c.trait and c.trait.endswith("command::Command")]
    pol = pat.one(rep, pol, "command.policy()", f)
    if pol:
        oe = f.outcome_edges(pol)
        ok = "Some" in oe and all(f.dominates(oe["Some"][1], t) for t in targets)
        rep.check(ok, "init|policy-guard", "K2 guarded-by", "new_storage and Ok are dominated by the Some edge of command.policy()",
                  "Transaction::init creates a graph for a command without policy", f.site())
    # call_rule before new_storage (rule accepted)
    cr = pat.trait_calls(f, "policy::Policy", "call_rule")
    rep.check(bool(cr) and "Err" in f.outcome_edges(cr[0]) and ns.bb not in f.reachable(f.outcome_edges(cr[0])["Err"][1]), "init|rule-before-storage", "K2 guarded-by",
              "new_storage is unreachable from the Err edge of call_rule", site=f.site())

    # R2 add_commands
    g = F.fn(T + "add_commands")
    sws = [x for x in g.discr_switches("Prior")]
    sws = [x for x in sws if "None" in x[1]]
    sw = pat.one(rep, sws, "match command.parent()", g)
    if sw:
        b, arms, other, st = sw
        none_t = arms["None"]
        reg = g.dominated_region(none_t)
        cmpc = [c for c in g.cmp_switches() if c["bb"] in reg and (g.derives_from_field(c["a"], "graph_id") or g.derives_from_field(c["b"], "graph_id"))]
        cmpc = pat.one(rep, cmpc, "graph id comparison in the Prior::None arm", g)
        if cmpc:
            ie = [s for s in pat.err_aggs(g, "InitError") if s.bb in g.reachable(cmpc["ne"], cut_blocks={cmpc["eq"]}) and s.bb in reg]
            adds = [c for c in g.calls if c.bb in reg and (c.is_(T + "add_single") or c.is_(T + "add_merge") or c.is_(T + "init") or c.name == "checked_add")]
            rep.check(bool(ie) and not adds, "add_commands|foreign-init-rejected", "K2 guarded-by",
                      "in the Prior::None arm an id != graph id returns InitError; nothing is added or counted in that arm",
                      "add_commands does not reject a parentless command with a foreign id", g.site(st.line))
            # the mismatch edge cannot continue the loop
            nxt = [c for c in g.calls if c.is_("Iterator::next")]
            r = g.reachable(cmpc["ne"], cut_blocks={cmpc["eq"]})
            rep.check(not any(c.bb in r for c in nxt), "add_commands|foreign-init-aborts-batch", "K2 guarded-by",
                      "the id-mismatch edge does not continue with the next command", site=g.site(st.line))
    gs = pat.trait_calls(g, "storage::StorageProvider", "get_storage")
    gs = pat.one(rep, gs, "provider.get_storage", g)
    if gs:
        ic = [c for c in g.calls if c.is_(T + "init")]
        nsw = [x for x in g.discr_switches("StorageError") if "NoSuchStorage" in x[1]]
        ok = False
        if ic and nsw:
            t = nsw[0][1]["NoSuchStorage"]
            ok = all(g.dominates(t, c.bb) for c in ic)
            nx = [c for c in g.calls if c.is_("Iterator::next") and c.bb in g.dominated_region(t)]
            ie = [s for s in g.stmts() if s.bb in g.dominated_region(t) and s.rv_kind() == "agg" and s.rv[1].get("variant") == "InitError"]
            ok = ok and bool(nx) and bool(ie)
            if nx:
                cmd_src = [x for k, x in g.backward_sources(ic[0].args[1].place.local, through_calls=PASS_THROUGH + ("Option::ok_or",))[1] if k == "call"]
                ok = ok and any(x is nx[0] for x in cmd_src)
        rep.check(ok, "add_commands|create-from-first-command", "K2 guarded-by",
                  "init is called only on the NoSuchStorage edge, with the first command of the batch; an empty batch gives InitError", site=g.site())

    # R3 new_storage
    h = [x for x in F.fns if x.name == "new_storage" and x.self_adt and x.self_adt.endswith("linear::LinearStorageProvider")]
    h = pat.one(rep, h, "LinearStorageProvider::new_storage", f)
    if h:
        tr = [c for c in h.calls if c.is_("Id::transmute")]
        ok = False
        if tr:
            ok = h.derives_from_field(tr[0].args[0], "commands") and h.derives_from_field(tr[0].args[0], "id")
            # ... of the *first* command: `commands[0]`, `.first()` or the first `next()` of a forward iterator
            og = h.origins(tr[0].args[0], through_calls="*")
            sl, sites = h.backward_sources(tr[0].args[0].place.local, through_calls="*")
            first = False
            for k, c in sites:
                if k == "call" and c.is_("Index::index") and len(c.args) > 1 and c.args[1].const is not None and c.args[1].val == 0:
                    first = True
                if k == "call" and c.name in ("first", "first_mut"):
                    first = True
            wrong = {"call:last", "call:last_mut", "call:next_back", "call:rev", "call:pop", "call:max_by_key", "call:min_by_key", "call:len"} & og
            ok = ok and first and not wrong
        rep.check(ok, "new_storage|id-from-init-command", "K6 provenance", "the graph id is init.commands[0].id (the first command of the init perspective)",
                  "LinearStorageProvider::new_storage does not take the graph id from the first command of the init perspective: an init action that publishes further commands "
                  "creates the graph under a non-init command's id and no other device can ever join it", h.site())
        ent = [c for c in h.calls if c.name == "entry"]
        se = pat.err_aggs(h, "StorageExists")
        ep = pat.err_aggs(h, "EmptyPerspective")
        cr = [c for c in h.calls if c.name in ("create",)]
        sws = h.discr_switches("Entry")
        ok = False
        if ent and sws and se:
            b, arms, other, st = sws[0]
            vac = arms.get("Vacant")
            ok = vac is not None and all(h.dominates(vac, c.bb) for c in cr) and all(not h.dominates(vac, s.bb) for s in se)
            if ent[0].args[1].place is not None:
                ok = ok and any(k == "call" and x is tr[0] for k, x in h.backward_sources(ent[0].args[1].place.local)[1])
        rep.check(ok and bool(ep), "new_storage|vacant-only", "K2 guarded-by",
                  "storage is created only on the Vacant edge of the entry keyed by that id; Occupied -> StorageExists; empty -> EmptyPerspective",
                  site=h.site())
