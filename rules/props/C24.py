"""C24 Policies the compiler accepts do not go wrong.

Decided (label, scope and stack-pointer discipline of the code generator; structural):
 R1 K9  label discipline: every label created with anonymous_label() in a code-generator function is
        defined (define_label) on every normal path to that function's successful return, at exactly
        one site, and is the target of at least one emitted Branch/Jump in the same function. The
        match dispatcher's per-arm labels travel through `arm_labels` and are defined as `arm_start`
        (audited alias).
 R2 K1  Compiler::compile resolves targets (resolve_targets Ok) before the module is built, and
        resolve_target turns a missing label into an error (never leaves Target::Unresolved).
 R3 K9  scope pairing: in every code-generator function each emitted Instruction::Block is followed by
        an Instruction::End (directly or via compile_match_arm_epilogue) on every normal path to the
        successful return, and each identifier_types.enter_block by an exit_block; the same for
        lower.rs. Guards of the form `if scope == Layered {Block} ... if scope == Layered {End}` are
        recognised as correlated when both test the same unmodified value.
        SaveSP is emitted only in compile_function_like for functions with a return type, and every
        emitted Return is preceded by RestoreSP.
 R4 K1  `let` emits Def after compiling its expression.
 R5 K1  VM entries start clean: RunState::setup_function empties call_state and scope and sets the
        pc on every path to Ok, and every RunState method that calls run() goes through it first.
 R6 K5  struct literals are complete: lower_struct_literal checks the definition against the literal
        (every defined field is initialised), the converse of its per-field existence check.
 R7 K5  argument counts: every zip() of call arguments with declared parameters in lower.rs is preceded
        by a comparison of the two lengths, locally or at every call site (sibling agreement).
 R8 K5  no type-checking comparison in the compiler compares a value with itself.
 R9 K9  query cursors: a `return` out of a `map` body releases the loop's cursor (typestate of
        query_iter_stack) - today a KNOWN FINDING, see known_findings.json.
 R10 K1 the fact literal of `map .. as x` is lowered in the enclosing scope, before `x` is added.
 R11 K6 QueryNext names the struct it binds after the fact on the cursor (the type lowering gave it).
 R12 K9 the Substruct template leaves one value on every path (MStructSet or Pop after the source).
Not decided: type mismatches, undefined variables and stack underflow for arbitrary accepted
programs (needs the soundness of the type checker in lower.rs; value-level)."""
from rules.core import emit, pat
from rules.core.facts import Operand

CRATES = ["aranya_policy_compiler", "aranya_policy_ast", "aranya_policy_module", "aranya_policy_vm"]
CS = "aranya_policy_compiler::compile::CompileState::"

LABEL_ALIAS = {"arm_label": {"arm_start"}}   # pushed into arm_labels, later zipped back as arm_start


def ok_return_blocks(f):
    return {s.bb for s in pat.ok_returns(f)} or set(f.returns())


def guard_of(f, bb):
    """the comparison whose eq/true edge directly guards block bb (closest dominating), or None"""
    best = None
    for c in f.cmp_switches():
        for edge in ("eq", "t"):
            t = c.get(edge)
            if t is not None and f.dominates(t, bb) and not f.dominates(c.get("f") if edge == "t" else c.get("ne"), bb):
                if best is None or f.dominates(best[1], t):
                    best = (c, t, edge)
    return best


def same_guard(f, g1, g2):
    if g1 is None or g2 is None:
        return False
    c1, c2 = g1[0], g2[0]
    if c1["op"] != c2["op"]:
        return False
    def sig(o):
        return frozenset(x for x in f.origins(o, through_calls=()) if x.startswith(("argname:", "field:", "const")))
    return sig(c1["a"]) == sig(c2["a"]) and sig(c1["b"]) == sig(c2["b"]) and bool(sig(c1["a"]) | sig(c1["b"]))


def paired(f, opens, closes, cut, rep, key, what, site):
    """each open event is followed by a close event on every normal path to the Ok return"""
    rets = ok_return_blocks(f)
    allok = True
    for o in opens:
        cl = [c.bb for c in closes]
        extra_cut = set(cut)
        go = guard_of(f, o.bb)
        for c in closes:
            gc = guard_of(f, c.bb)
            if same_guard(f, go, gc) and f.dominates(go[0]["bb"], gc[0]["bb"]):
                # correlated guard: when the open ran, the close's guard holds as well
                other = gc[0]["ne"] if gc[2] == "eq" else gc[0]["f"]
                extra_cut.add((gc[0]["bb"], other))
        good = emit.must_pass(f, o.bb, cl, rets, extra_cut)
        allok = allok and good
        rep.check(good, "%s|%s" % (key, what), "K9 scope pairing",
                  "every normal path from this %s to the successful return passes its closing counterpart" % what,
                  "%s: an emitted/entered %s is not closed on some path to the successful return" % (f.path.split("::")[-1], what), site if not hasattr(o, "call") else o.call.site())
    return allok


def run(F, rep, tier):
    rep.explanation = __doc__
    gens = [f for f in F.fns if f.crate == "aranya_policy_compiler" and f.file.endswith(("src/compile.rs", "compile/lower.rs")) and not f.derived and f.kind != "Closure"]
    n_labels = n_blocks = n_scopes = 0
    for f in gens:
        evs = emit.events(F, f, None)
        if not evs and not any(c.name in ("enter_block", "exit_block") for c in f.calls):
            continue
        cut = emit.err_edges(f)
        rets = ok_return_blocks(f)
        # R1 labels
        for nv in [e for e in evs if e.kind == "new"]:
            names = set(nv.labels)
            if not names:
                # label returned or stored elsewhere (e.g. pushed into a Vec without a binding)
                continue
            aliases = set(names)
            for n in names:
                aliases |= LABEL_ALIAS.get(n, set())
            alias_only = aliases - names
            defs = [e for e in evs if e.kind == "label" and (nv.bb in e.lsrc or (not e.lsrc and e.labels & alias_only))]
            uses = [e for e in evs if e.kind == "emit" and e.variant in ("Branch", "Jump", "Call", "Recall") and nv.bb in e.lsrc] + \
                   [e for e in evs if e.kind == "epilogue" and nv.bb in e.lsrc]
            n_labels += 1
            key = "%s|label:%s" % (f.path.split("::")[-1], "+".join(sorted(names)))
            # several definition sites are fine only when they are alternatives (none reachable from another)
            excl = all(d2.bb not in f.reachable(d1.bb) - {d1.bb} for d1 in defs for d2 in defs if d1 is not d2)
            ok = len(defs) >= 1 and excl and len(uses) >= 1
            via_vec = bool(defs) and all(not d.lsrc for d in defs)
            if ok and via_vec:
                # labels collected in a Vec and defined by a later loop: whether that loop runs once per label
                # is a length fact; what is decided is that every alternative of the enum switch that
                # separates the definition sites contains one (no body kind forgets to define its arm labels)
                sws = [x for x in f.discr_switches(None) if f.dominates(x[0], defs[0].bb) and x[0] in f.reachable(nv.bb) and all(any(d.bb in f.dominated_region(t) for t in x[1].values()) for d in defs)]
                ok = any(all(any(d.bb in f.dominated_region(t) for d in defs) for v, t in x[1].items()) and len(x[1]) >= len(defs) for x in sws) or (len(defs) == 1 and emit.must_pass(f, nv.bb, [defs[0].bb], rets, cut))
            elif ok:
                ok = emit.must_pass(f, nv.bb, [d.bb for d in defs], rets, cut)
            rep.check(ok, key, "K9 label discipline",
                      "created once, defined at exactly one site on every normal path to Ok, used as a target %d time(s)" % len(uses),
                      "label `%s` in %s is %s" % ("/".join(sorted(names)), f.path.split("::")[-1],
                                                 "never used as a target" if not uses else ("never defined" if not defs else ("defined twice on one path" if not excl else "not defined on every path to the successful return"))),
                      nv.call.site())
        # R3 Block/End
        opens = [e for e in evs if e.kind == "emit" and e.variant == "Block"]
        closes = [e for e in evs if (e.kind == "emit" and e.variant == "End") or e.kind == "epilogue"]
        if opens:
            n_blocks += len(opens)
            paired(f, opens, closes, cut, rep, f.path.split("::")[-1], "Instruction::Block", f.site())
        if f.name != "compile_match_arm_epilogue":
            ends_only = [e for e in evs if e.kind == "emit" and e.variant == "End"]
            for e in ends_only:
                rep.check(any(f.dominates(o.bb, e.bb) or same_guard(f, guard_of(f, o.bb), guard_of(f, e.bb)) for o in opens),
                          "%s|End-has-Block" % f.path.split("::")[-1], "K9 scope pairing", "each emitted End closes a Block emitted earlier in the same function",
                          "%s emits End without a preceding Block" % f.path, e.call.site())
        # enter_block / exit_block
        class E:  # tiny adaptor
            def __init__(self, c):
                self.bb = c.bb
                self.call = c
        eo = [E(c) for c in f.calls if c.name == "enter_block" and c.path and "IdentifierTypeStack" in c.path]
        ec = [E(c) for c in f.calls if (c.name == "exit_block" and c.path and "IdentifierTypeStack" in c.path) or c.name == "compile_match_arm_epilogue"]
        if eo:
            n_scopes += len(eo)
            paired(f, eo, ec, cut, rep, f.path.split("::")[-1], "identifier scope (enter_block)", f.site())
    rep.floor("labels checked", n_labels, 12)
    rep.floor("Block emissions checked", n_blocks, 4)
    rep.floor("enter_block sites checked", n_scopes, 6)
    # epilogue = exit_block + End + Jump
    ep = F.fn(CS + "compile_match_arm_epilogue")
    evs = emit.events(F, ep, None)
    vs = [e.variant for e in evs if e.kind == "emit"]
    rep.check("End" in vs and any(c.name == "exit_block" for c in ep.calls), "epilogue|closes-scope-and-block", "K9 scope pairing",
              "compile_match_arm_epilogue exits the identifier scope and emits End (so it counts as the arm's closer)", site=ep.site())
    # R2
    found = False
    for f in F.fns:
        if f.crate == "aranya_policy_compiler" and any(c.name == "resolve_targets" for c in f.calls) and f.name != "resolve_targets":
            found = True
            rt = [c for c in f.calls if c.name == "resolve_targets"][0]
            e = pat.ok_edge(f, rt)
            oks = pat.ok_returns(f)
            rep.check(e is not None and bool(oks) and all(f.dominates(e[1], s.bb) for s in oks), "%s|resolve_targets-before-ok" % f.name, "K1 must-pass-through",
                      "%s returns Ok only after resolve_targets succeeded" % f.path.split("::")[-1], site=rt.site())
            callers = F.callers_of(f.path)
            comp = F.fn("aranya_policy_compiler::compile::Compiler::compile")
            cc = [c for c in comp.calls if c.path == f.path or c.is_(f.path)]
            if cc:
                e2 = pat.ok_edge(comp, cc[0])
                im = [c for c in comp.calls if c.name == "into_module"]
                rep.check(e2 is not None and bool(im) and all(comp.dominates(e2[1], c.bb) for c in im), "compile|module-after-resolution", "K1 must-pass-through",
                          "Compiler::compile builds the module only after %s (which resolves targets) succeeded" % f.name, site=comp.site())
    if not found:
        rep.anchor_missing("caller of resolve_targets")
    rtg = F.fn(CS + "resolve_target")
    sw = [x for x in rtg.discr_switches("Target")]
    ok = False
    if sw:
        un = sw[0][1].get("Unresolved")
        if un is not None:
            reg = rtg.dominated_region(un)
            get = [c for c in rtg.calls if c.bb in reg and c.name == "get"]
            oks = [s for s in pat.ok_returns(rtg) if s.bb in reg]
            res = [s for s in rtg.stmts() if s.bb in reg and s.rv_kind() == "agg" and s.rv[1].get("variant") == "Resolved"]
            ok = len(get) == 1 and bool(oks) and bool(res)
            if ok:
                oe = rtg.outcome_edges(get[0])
                e = oe.get("Continue") or oe.get("Some")
                ok = e is not None and all(rtg.dominates(e[1], s.bb) for s in oks + res)
    rep.check(ok, "resolve_target|missing-label-is-error", "K2 guarded-by",
              "an Unresolved target becomes Resolved(addr) only when the label is in the table; otherwise an error is returned", site=rtg.site())
    rts = F.fn(CS + "resolve_targets")
    sw = [x for x in rts.discr_switches("instructions::Instruction")]
    ok = bool(sw) and {"Branch", "Jump", "Call"} <= {v for v, t in sw[0][1].items() if t != sw[0][2]}
    rep.check(ok, "resolve_targets|covers-control-transfers", "K7 table", "resolve_targets visits Branch, Jump, Call (and Recall) targets", site=rts.site())
    # SaveSP / RestoreSP
    sites = {}
    for f in gens:
        for e in emit.events(F, f, None):
            if e.kind == "emit" and e.variant in ("SaveSP", "RestoreSP", "Return"):
                sites.setdefault(e.variant, []).append((f, e))
    ok = set(f.name for f, e in sites.get("SaveSP", [])) == {"compile_function_like"}
    rep.check(ok, "sp|SaveSP-only-in-function-prologue", "K3 who-may-construct", "SaveSP is emitted only by compile_function_like", site=None)
    # `return e` templates: RestoreSP then Return. (Finish functions and value-less actions append a bare
    # Return after the body: no SaveSP was emitted for them, see SaveSP-iff-return-type.)
    n_ret = 0
    for f in gens:
        for adt in ("thir::StmtKind", "thir::ExprKind"):
            sws = f.discr_switches(adt)
            sk = f.outer_switch(sws) if sws else None
            if not sk or "Return" not in sk[1]:
                continue
            reg = f.dominated_region(sk[1]["Return"])
            rets_ = [e for g, e in sites.get("Return", []) if g is f and e.bb in reg]
            rs = [e for g, e in sites.get("RestoreSP", []) if g is f and e.bb in reg]
            n_ret += len(rets_)
            rep.check(bool(rets_) and all(any(f.dominates(x.bb, e.bb) for x in rs) for e in rets_), "sp|%s|%s|Return-after-RestoreSP" % (f.name, adt.split("::")[-1]), "K9 emission template",
                      "the `return` template emits RestoreSP before Return", "a `return` emits Return without first emitting RestoreSP (the callee's temporaries stay on the stack)", site=f.site())
    for f, e in sites.get("RestoreSP", []):
        rep.check(any(g is f and f.dominates(e.bb, x.bb) for g, x in sites.get("Return", [])), "sp|%s|RestoreSP-then-Return" % f.name, "K9 emission template",
                  "every emitted RestoreSP is followed by a Return in the same template", site=e.call.site())
    rep.floor("return templates checked", n_ret, 2)
    cfl = F.fn(CS + "compile_function_like")
    sv = [e for e in emit.events(F, cfl, None) if e.kind == "emit" and e.variant == "SaveSP"]
    g = guard_of(cfl, sv[0].bb) if sv else None
    rep.check(bool(sv) and any(s.rv_kind() == "discr" for s in cfl.stmts()), "sp|SaveSP-iff-return-type", "K2 guarded-by",
              "SaveSP is emitted under the `ret is Some` test in compile_function_like", site=cfl.site())
    # R4 let
    cts = F.fn(CS + "compile_typed_statement")
    sk = cts.outer_switch(cts.discr_switches("thir::StmtKind"))
    ok = False
    if sk and "Let" in sk[1]:
        reg = cts.dominated_region(sk[1]["Let"])
        evs = emit.events(F, cts, reg)
        comp = [e for e in evs if e.kind == "compile"]
        d = [e for e in evs if e.kind == "emit" and e.variant == "Def"] + [c for c in cts.calls if c.bb in reg and c.name == "append_var"]
        ok = len(comp) == 1 and len(d) >= 1 and all(cts.dominates(comp[0].bb, x.bb) for x in d)
    rep.check(ok, "let|def-after-expression", "K9 emission template", "`let x = e` compiles e and then defines x", site=cts.site())
    vm_entry_rules(F, rep)


def must_pass_calls(f, pred):
    """every normal path from entry to a successful return passes a call satisfying pred"""
    hits = [c.bb for c in f.calls if pred(c)]
    if not hits:
        return False
    rets = ok_return_blocks(f)
    return emit.must_pass(f, 0, hits, rets, emit.err_edges(f)) if 0 not in hits else True


def vm_entry_rules(F, rep):
    """R5: every VM entry starts from an empty call stack and scope."""
    RS = "aranya_policy_vm::machine::RunState::"
    fns = {f.name: f for f in F.fns if f.path.startswith(RS) and f.kind != "Closure" and f.path.count("::") == RS.count("::")}
    if "setup_function" not in fns or "run" not in fns:
        rep.anchor_missing("RunState::setup_function / RunState::run")
        return

    def clears(f, field, depth=0):
        def pred(c):
            if c.name == "clear" and "field:%s" % field in f.origins(c.args[0], through_calls=()):
                return True
            g = fns.get(c.name) if c.path and c.path.startswith(RS) else None
            return g is not None and g is not f and depth < 3 and clears(g, field, depth + 1)
        return must_pass_calls(f, pred)

    sf = fns["setup_function"]
    for field, why in (("call_state", "stale return addresses / saved stack depths from an interrupted run would be popped by the next run's outermost Return"),
                       ("scope", "variables of an interrupted run would still be defined")):
        rep.check(clears(sf, field), "vm-entry|setup_function-clears-%s" % field, "K1 must-pass-through",
                  "setup_function empties `%s` on every path to Ok (directly or through a callee that always does)" % field,
                  "RunState::setup_function does not empty `%s` on every path: %s" % (field, why), sf.site())
    rep.check(must_pass_calls(sf, lambda c: c.name == "set_pc_by_label"), "vm-entry|setup_function-sets-pc", "K1 must-pass-through",
              "setup_function positions the pc at the entry label", site=sf.site())

    def establishes(f, depth=0):
        if f is sf:
            return True
        def pred(c):
            g = fns.get(c.name) if c.path and c.path.startswith(RS) else None
            return g is not None and g is not f and depth < 3 and establishes(g, depth + 1)
        return must_pass_calls(f, pred)

    n = 0
    for name, f in sorted(fns.items()):
        runs = [c for c in f.calls if c.name == "run" and c.path and c.path.startswith(RS)]
        if not runs or name == "run":
            continue
        n += 1
        setups = [c for c in f.calls if c.path and c.path.startswith(RS) and fns.get(c.name) is not None and fns[c.name] is not f and establishes(fns[c.name])]
        ok = bool(setups) and all(any(f.dominates(s.bb, r.bb) for s in setups) for r in runs)
        rep.check(ok, "vm-entry|%s-sets-up-before-run" % name, "K1 must-pass-through",
                  "%s reaches run() only after setup_function (possibly via setup_action)" % name,
                  "RunState::%s can call run() without going through setup_function" % name, f.site())
    rep.floor("VM entry points that call run()", n, 4)
    struct_literal_rule(F, rep)


SCANS = ("Iterator::find", "Iterator::any", "Iterator::all", "Iterator::position", "Iterator::find_map")


def literal_checks(F, f, region=None):
    """which of {exists, typed, complete} a struct-literal consumer performs against the struct definition"""
    got = set()
    calls = [c for c in f.calls if region is None or c.bb in region]

    def from_def(o):
        return o is not None and o.place is not None and "field:struct_defs" in f.origins(o, through_calls="*")

    if any(c.name == "fits_type" for c in calls):
        got.add("typed")
    scans = [c for c in calls if c.is_(*SCANS) and from_def(c.args[0])]
    for c in scans:
        nested = False
        for cl in f.closures_in_args(c, F):
            if any(x.is_(*SCANS) or x.name in ("contains", "contains_key") for x in cl.calls):
                nested = True
        got.add("complete" if nested else "exists")
    for c in f.cmp_switches():
        if region is not None and c["bb"] not in region:
            continue
        oa, ob = f.origins(c["a"], through_calls="*"), f.origins(c["b"], through_calls="*")
        if "call:len" in oa and "call:len" in ob and (("field:struct_defs" in oa) != ("field:struct_defs" in ob)):
            got.add("complete")
    return got


def struct_literal_rule(F, rep):
    """R6: every consumer of a struct literal checks it against the struct definition three ways: each named
    field exists, its value fits the declared type, and every declared field is initialised. (A missing
    member, or a member of the wrong type, surfaces as one of the machine errors C24 excludes.) The
    consumers are lower_struct_literal (expressions) and expression_value's NamedStruct arm (global lets)."""
    want = {"exists", "typed", "complete"}
    f = F.fn("aranya_policy_compiler::compile::lower::lower_struct_literal")
    got = literal_checks(F, f)
    rep.check(want <= got, "struct-literal|every-field-initialised", "K5 sibling agreement",
              "lower_struct_literal checks the literal against the definition: %s" % sorted(got),
              "lower_struct_literal does not fully check a struct literal against its definition (performs %s, missing %s): e.g. `S { a: x }` for `struct S { a int, b int }` compiles and "
              "`s.b` then stops the VM with an invalid-struct-member error" % (sorted(got), sorted(want - got)), f.site())
    g = F.fn(CS + "expression_value")
    sw = g.discr_switches("ast::ExprKind")
    sk = g.outer_switch(sw) if sw else None
    if not sk or "NamedStruct" not in sk[1]:
        rep.anchor_missing("expression_value: NamedStruct arm")
        return
    reg = g.dominated_region(sk[1]["NamedStruct"])
    got = literal_checks(F, g, reg)
    rep.check(want <= got, "struct-literal|global-let-checked-like-expressions", "K5 sibling agreement",
              "expression_value's NamedStruct arm checks the literal against the definition: %s" % sorted(got),
              "a struct literal in a global `let` is not checked against its struct definition (performs %s, missing %s) although lower_struct_literal checks the same literals in "
              "expressions: `let g = S { a: \"text\" }` for `struct S { a int }` compiles and `g.a` is a string where an int is expected" % (sorted(got), sorted(want - got)), g.site())
    arity_rule(F, rep)
    self_comparison_rule(F, rep)
    cursor_release_rule(F, rep)
    map_scope_rule(F, rep)
    map_binding_type_rule(F, rep)
    substruct_balance_rule(F, rep)


def arity_rule(F, rep):
    """R7 (contradiction rule): wherever lowering pairs call arguments with declared parameters by `zip`
    (which silently stops at the shorter side), the two lengths are compared first - in the same function,
    or at every call site of it. Most pairings do; one that does not accepts calls with missing arguments,
    and the callee then pops an empty stack."""
    L = "aranya_policy_compiler::compile::lower::"

    def lencmps(f):
        out = []
        for c in f.cmp_switches():
            oa = f.origins(c["a"], through_calls="*")
            ob = f.origins(c["b"], through_calls="*")
            if "call:len" in oa and "call:len" in ob:
                out.append(c)
        return out

    n = 0
    for f in F.fns:
        if not f.path.startswith(L) or f.derived:
            continue
        for z in [c for c in f.calls if c.is_("Iterator::zip", "iter::zip")]:
            n += 1
            local = [c for c in lencmps(f) if f.dominates(c["bb"], z.bb)]
            callers = F.callers_of(f.path)
            at_callers = bool(callers) and all(any(g.dominates(x["bb"], c.bb) for x in lencmps(g)) for g, c in callers if g is not f)
            name = f.path[len(L):]
            rep.check(bool(local) or at_callers, "arity|%s|zip-after-length-check" % name, "K5 sibling agreement",
                      "the zip of arguments and parameters in %s is preceded by a comparison of the two lengths (%s)" % (name, "locally" if local else "at every call site"),
                      "%s pairs arguments with parameters by zip() without any comparison of their counts, here or at its call sites (its sibling lowerings all compare them): "
                      "a call with too few arguments is accepted and the callee pops an empty stack" % name, z.site())
    rep.floor("argument/parameter zips in lower.rs", n, 5)


CMP_LIKE = {"matches", "eq", "ne", "fits_type", "cmp", "partial_cmp", "lt", "le", "gt", "ge", "is_subtype", "unify_pair", "unify_pair_as", "check_type"}


def access_path(f, o, depth=12):
    """canonical (root local, field path) of an operand, through single-definition copies, moves, borrows and
    derefs; None for constants or values computed by calls"""
    if o is None or o.place is None:
        return None
    local = o.place.local
    proj = [tuple(p[:2]) for p in o.place.proj if p[0] in ("f", "v")]
    for _ in range(depth):
        nm = f.local_name(local)
        if (nm and nm != "self") or (1 <= local <= f.nargs):
            break
        ds = f.defs().get(local, [])
        if len(ds) != 1 or ds[0][0] != "stmt":
            return None if not ds or ds[0][0] != "stmt" else (local, tuple(proj))
        st = ds[0][1]
        if st.place.proj:
            return None
        if st.rv_kind() == "use":
            src = Operand(st.rv[1]).place
        elif st.rv_kind() == "ref":
            from rules.core.facts import Place
            src = Place(st.rv[2])
        else:
            return None
        if src is None:
            return None
        proj = [tuple(p[:2]) for p in src.proj if p[0] in ("f", "v")] + proj
        local = src.local
    return (local, tuple(proj))


def self_comparison_rule(F, rep):
    """R8: no type-checking comparison in the compiler compares a value with itself (x.matches(&x),
    a == a, t.fits_type(&t)): such a test is constantly true and silently disables the check it stands for."""
    n = 0
    for f in F.fns:
        if f.crate != "aranya_policy_compiler" or f.derived or f.exp:
            continue
        for c in f.calls:
            if c.name in CMP_LIKE and len(c.args) == 2 and not c.exp:
                n += 1
                a, b = access_path(f, c.args[0]), access_path(f, c.args[1])
                if a is not None and a == b and a[1]:
                    rep.violation("self-comparison|%s|%s" % (f.path.replace("aranya_policy_compiler::", ""), c.name), "K5 contradiction",
                                  "%s compares a value with itself (`x.%s(&x)`, both operands are the same field path %s of the same binding): the check is constantly satisfied" % (
                                      f.path, c.name, ".".join(str(p[1]) for p in a[1])), c.site())
    rep.floor("comparison calls examined for self-comparison", n, 40)
    rep.ok("K5 contradiction", "no comparison call in the compiler has identical operands (%d examined)" % n)


def cursor_release_rule(F, rep):
    """R9 (typestate): a `map` loop pushes a query cursor (QueryStart) that the VM pops only when the cursor is
    exhausted (QueryNext). Leaving the loop body by `return` must release it some other way, or the caller's
    enclosing `map` continues on the callee's cursor. Accepted mitigations: the VM's Return handler shrinks
    query_iter_stack, or the `return` templates emit an instruction whose handler pops it unconditionally."""
    step = F.fn("aranya_policy_vm::machine::RunState::step")
    sws = step.discr_switches("instructions::Instruction")
    outer = step.outer_switch(sws) if sws else None
    if not outer or "Return" not in outer[1] or "QueryNext" not in outer[1]:
        rep.anchor_missing("RunState::step arms for Return / QueryNext")
        return
    SHRINK = ("pop", "truncate", "clear", "drain", "split_off", "resize_with", "retain")

    def touches_cursor_stack(region):
        return [c for c in step.calls if c.bb in region and c.name in SHRINK and "field:query_iter_stack" in step.origins(c.args[0], through_calls=())]

    ret_reg = step.dominated_region(outer[1]["Return"])
    vm_restores = bool(touches_cursor_stack(ret_reg))
    # instructions whose handler always pops the cursor stack
    poppers = set()
    for v, t in outer[1].items():
        if t == outer[2] or v in ("QueryNext",):
            continue
        reg = step.dominated_region(t)
        if touches_cursor_stack(reg):
            poppers.add(v)
    emits = False
    for f in F.fns:
        if f.crate == "aranya_policy_compiler" and f.file.endswith("src/compile.rs") and not f.derived:
            for adt in ("thir::StmtKind", "thir::ExprKind"):
                sw = f.discr_switches(adt)
                sk = f.outer_switch(sw) if sw else None
                if sk and "Return" in sk[1]:
                    reg = f.dominated_region(sk[1]["Return"])
                    if any(e.kind == "emit" and e.variant in poppers for e in emit.events(F, f, reg)):
                        emits = True
    pushes = [c for c in step.calls if c.name == "push" and "field:query_iter_stack" in step.origins(c.args[0], through_calls=())]
    rep.check(not pushes or vm_restores or emits, "map|return-releases-query-cursor", "K9 typestate",
              "a query cursor pushed by QueryStart is released when a `return` leaves the map body (VM Return shrinks the cursor stack, or the return template emits a cursor-popping instruction)",
              "nothing releases the query cursor when `return` leaves a `map` body: RunState::step's Return arm does not touch query_iter_stack and the `return` templates emit no "
              "cursor-popping instruction; after the callee returns, the caller's enclosing `map` takes its next row from the callee's cursor (wrong fact) and the VM stops with an "
              "invalid-struct-member error", step.site())


def map_scope_rule(F, rep):
    """R10: compile-time and run-time scopes agree for `map F[..] as x { .. }`: the VM evaluates the fact literal
    once, *before* the loop defines `x`, so lowering must type-check the literal in the enclosing scope - before
    it opens the loop's block and adds the binding. (Otherwise `map Pet[name: p.name] as p` is accepted and the VM
    stops with an undefined-variable error.)"""
    ls = F.fn("aranya_policy_compiler::compile::lower::lower_statements")
    sws = ls.discr_switches("ast::StmtKind")
    if len(sws) != 1 or "Map" not in sws[0][1]:
        rep.anchor_missing("lower_statements: Map arm")
        return
    reg = ls.reachable(sws[0][1]["Map"], cut_blocks={sws[0][0]})
    lf = [c for c in ls.calls if c.name == "lower_fact_literal" and ls.dominates(sws[0][1]["Map"], c.bb)]
    eb = [c for c in ls.calls if c.name == "enter_block" and ls.dominates(sws[0][1]["Map"], c.bb)]
    ad = [c for c in ls.calls if c.name == "add" and c.path and "IdentifierTypeStack" in c.path and ls.dominates(sws[0][1]["Map"], c.bb)]
    ok = len(lf) == 1 and bool(eb) and bool(ad) and all(ls.dominates(lf[0].bb, x.bb) for x in eb + ad)
    rep.check(ok, "lower|map-literal-in-enclosing-scope", "K1 must-pass-through",
              "the map statement's fact literal is lowered before the loop's block is entered and the `as` binding is added",
              "lower_statements lowers a map statement's fact literal after the `as` binding is already in scope: a literal that refers to its own binding type-checks, "
              "but the VM evaluates it before the binding exists (undefined variable)", ls.site())


def map_binding_type_rule(F, rep):
    """R11: lowering gives the `as` binding of `map F[..] as x` the type `struct F`; the VM must build that value
    as a struct named after the fact on the cursor, not after the variable, or the binding fails every later
    `fits_type` against `struct F` (publish/emit fields, function arguments)."""
    step = F.fn("aranya_policy_vm::machine::RunState::step")
    sws = step.discr_switches("instructions::Instruction")
    outer = step.outer_switch(sws) if sws else None
    if not outer or "QueryNext" not in outer[1]:
        rep.anchor_missing("RunState::step arm for QueryNext")
        return
    reg = step.dominated_region(outer[1]["QueryNext"])
    news = [c for c in step.calls if c.bb in reg and c.is_("Struct::new")]
    ok = len(news) == 1
    og = set()
    if ok:
        og = step.origins(news[0].args[0], through_calls=("Clone::clone", "Option::ok_or_else", "Try::branch", "last_mut", "slice::last_mut", "DerefMut::deref_mut", "Deref::deref"))
        ok = "field:query_iter_stack" in og and "field:name" in og
    rep.check(ok, "vm|QueryNext|binding-named-after-fact", "K6 provenance",
              "QueryNext builds the binding as Struct::new(<name of the fact on the cursor>, ..)",
              "the VM's QueryNext names the struct it binds after %s instead of the fact on the query cursor: the `as` binding of a map is typed `struct <Fact>` by the compiler "
              "but fails every fits_type check against that type at run time" % ("the instruction's identifier (the variable)" if news else "nothing"), step.site())


def substruct_balance_rule(F, rep):
    """R12: `e substruct T` leaves exactly one value. The template pushes StructNew(T) and the source struct and then
    folds them with MStructGet/MStructSet - but only when T has fields (the instructions carry a NonZeroUsize). On
    the other path the source value must be dropped some other way (Pop), or two values stay on the stack."""
    f = F.fn(CS + "compile_typed_expression")
    sk = f.outer_switch(f.discr_switches("thir::ExprKind"))
    if not sk or "Substruct" not in sk[1]:
        rep.anchor_missing("compile_typed_expression: Substruct arm")
        return
    reg = f.dominated_region(sk[1]["Substruct"])
    evs = emit.events(F, f, reg)
    comp = [e for e in evs if e.kind == "compile"]
    fold = [e for e in evs if e.kind == "emit" and e.variant in ("MStructSet", "Pop")]
    ok = len(comp) == 1 and bool(fold)
    if ok:
        exits = {b for b in range(f.nblocks) if b not in reg and not f.is_cleanup(b) and not f.is_unreachable_block(b) and any(p in reg for p in f.pred(b))}
        ok = emit.must_pass(f, comp[0].bb, [e.bb for e in fold], exits | ok_return_blocks(f), emit.err_edges(f))
    rep.check(ok, "template|Substruct|one-value-on-every-path", "K9 emission template",
              "after compiling the source struct every path through the Substruct arm emits MStructSet (fold into the new struct) or Pop (drop the source)",
              "compile_typed_expression's Substruct arm has a path (target struct without fields) on which neither MStructGet/MStructSet nor Pop is emitted after the source struct "
              "was compiled: two values stay on the stack and the surrounding expression consumes the wrong one", f.site())
