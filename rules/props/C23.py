"""C23 Untaken operands and branches are never evaluated.

Decided (structural, every accepted policy):
 R1 K9  diamond rule for `&&`, `||`, optional coalescing `or`, the `if` expression, and the `if` /
        `check` statements: the emission template is [cond] Branch(L) [X] Jump(E) L: [Y] E: (for
        `check`: Branch(L) [else] L:); the lazily evaluated operand / each branch body is compiled
        exactly once, after the Branch, inside exactly one of X and Y, and every path from the Branch
        to the definition of L emits the Jump(E) (the fall-through region cannot run into the other
        region). Operands are identified by their source bindings (a, b, lhs, rhs, c, t, f, ...).
 R2 K1  match: no arm body is compiled in the dispatch loop; in the body loops every arm body is
        preceded by define_label(arm_start) and followed by compile_match_arm_epilogue (End,
        Jump(end)) before the next arm's label.
 R3 K7  VM: Branch transfers control only when the popped bool is true; Jump unconditionally.
 R4 K3  the instruction stream is append-only while it is being generated: labels are bound to addresses
        (define_label(l, self.wp)), so nothing may remove, insert or reorder instructions once emitted - the
        only writers of `progmem` are append_instruction (push) and the in-place target rewrite of
        resolve_targets, and `wp` is stored only by append_instruction. (A peephole that pops an emitted
        instruction shifts every label already defined at the current address into the following region.)
Not decided: nothing structural is left; the residual assumption is that the VM executes only what
the program counter reaches (R3 + C25)."""
from rules.core import emit, pat
from rules.core.facts import Operand

CRATES = ["aranya_policy_compiler", "aranya_policy_ast", "aranya_policy_vm", "aranya_policy_module"]
CS = "aranya_policy_compiler::compile::CompileState::"


SHRINK = {"pop", "truncate", "remove", "insert", "swap_remove", "clear", "drain", "retain", "retain_mut", "split_off", "dedup", "dedup_by", "dedup_by_key",
          "swap", "reverse", "sort", "sort_by", "sort_by_key", "rotate_left", "rotate_right", "splice", "append", "extend", "resize", "set_len", "take", "replace"}


def append_only_rule(F, rep):
    fns = [f for f in F.fns if f.crate == "aranya_policy_compiler" and not f.derived and "/tests" not in f.file and not f.file.endswith("tests.rs")]
    bad = []
    pushes = set()
    for f in fns:
        for c in f.calls:
            if not c.args or c.args[0].place is None:
                continue
            if c.name in SHRINK | {"push"} and f.derives_from_field(c.args[0], "progmem"):
                if c.name == "push":
                    pushes.add((f.root or f.path).split("::")[-1])
                else:
                    bad.append("%s calls %s on progmem (%s)" % ((f.root or f.path).split("::")[-1], c.name, f.site(c.line)))
        for st in f.field_stores("wp"):
            if (f.root or f.path).split("::")[-1] != "append_instruction":
                bad.append("%s stores wp (%s)" % ((f.root or f.path).split("::")[-1], f.site(st.line)))
    rep.check(not bad and pushes == {"append_instruction"}, "progmem|append-only", "K3 who-may-write",
              "progmem grows only through append_instruction (push); no compiler function removes, inserts or reorders emitted instructions, and wp is stored only there",
              "the instruction stream is rewritten after emission: %s - labels already bound to the current address (e.g. the end label of a `&&` / `||` / `if` operand) "
              "then point into the following region, so an untaken branch can be entered" % "; ".join(bad or ["push outside append_instruction: %s" % sorted(pushes)]))


def run(F, rep, tier):
    rep.explanation = __doc__
    append_only_rule(F, rep)
    cte = F.fn(CS + "compile_typed_expression")
    cut = emit.err_edges(cte)
    ek = [x for x in cte.discr_switches("thir::ExprKind")]
    outer = cte.outer_switch(ek)
    if not outer:
        rep.anchor_missing("compile_typed_expression dispatch")
        return
    arms = outer[1]
    table = {"And": ({"a"}, {"b"}, set()), "Or": ({"a"}, {"b"}, set()), "Coalesce": ({"lhs"}, {"rhs"}, set())}
    for v, (c, t, e) in table.items():
        if v not in arms:
            rep.anchor_missing("ExprKind::%s arm" % v)
            continue
        reg = cte.dominated_region(arms[v])
        evs = emit.events(F, cte, reg)
        emit.diamond(cte, evs, c, t, e, rep, "expr:%s" % v, cte.site(), cut)
    # InternalFunction::If
    ifs = [x for x in cte.discr_switches("thir::InternalFunction")]
    ok = False
    for x in ifs:
        if "If" in x[1]:
            reg = cte.dominated_region(x[1]["If"])
            evs = emit.events(F, cte, reg)
            emit.diamond(cte, evs, {"c"}, {"t"}, {"f"}, rep, "expr:If", cte.site(), cut)
            ok = True
    if not ok:
        rep.anchor_missing("InternalFunction::If arm")
    # statements
    cts = F.fn(CS + "compile_typed_statement")
    cut2 = emit.err_edges(cts)
    sk = [x for x in cts.discr_switches("thir::StmtKind")]
    outer = cts.outer_switch(sk)
    if not outer:
        rep.anchor_missing("compile_typed_statement dispatch")
        return
    arms = outer[1]
    # check
    reg = cts.dominated_region(arms["Check"])
    evs = emit.events(F, cts, reg)
    br = [e for e in evs if e.kind == "emit" and e.variant == "Branch"]
    lb = [e for e in evs if e.kind == "label"]
    comps = [e for e in evs if e.kind == "compile"]
    ok = len(br) == 1 and len(lb) == 1 and len(comps) == 2 and bool(br[0].labels & lb[0].labels)
    if ok:
        first = [e for e in comps if cts.dominates(e.bb, br[0].bb)]
        second = [e for e in comps if cts.dominates(br[0].bb, e.bb) and cts.dominates(e.bb, lb[0].bb)]
        ok = len(first) == 1 and len(second) == 1 and first[0] is not second[0]
        # which is which: by the fields of the statement they derive from
        f1 = cts.origins(first[0].call.args[1], through_calls=())
        f2 = cts.origins(second[0].call.args[1], through_calls=())
        ok = ok and "field:expression" in f1 and "field:else_expression" in f2
    rep.check(ok, "stmt:Check|shape", "K9 emission template",
              "check: [expression] Branch(L) [else_expression] L: - the else expression is compiled only in the fall-through region",
              "the `check` template evaluates its else-expression eagerly or on the success path", cts.site())
    # if statement (loop)
    reg = cts.dominated_region(arms["If"])
    evs = emit.events(F, cts, reg)
    br = [e for e in evs if e.kind == "emit" and e.variant == "Branch"]
    jp = [e for e in evs if e.kind == "emit" and e.variant == "Jump"]
    lb = [e for e in evs if e.kind == "label"]
    comps = [e for e in evs if e.kind == "compile"]
    ok = len(br) == 1 and len(jp) == 1 and len(lb) == 2
    if ok:
        B, J = br[0], jp[0]
        DL = [e for e in lb if e.labels & B.labels]
        DE = [e for e in lb if e.labels & J.labels]
        ok = len(DL) == 1 and len(DE) == 1 and DL[0] is not DE[0]
    if ok:
        DL, DE = DL[0], DE[0]
        cond = [e for e in comps if e.fn == "compile_typed_expression" and cts.dominates(e.bb, B.bb)]
        body = [e for e in comps if e.fn == "compile_typed_statements" and cts.dominates(B.bb, e.bb) and cts.dominates(e.bb, J.bb)]
        fb = [e for e in comps if e.fn == "compile_typed_statements" and e not in body]
        ok = len(cond) == 1 and len(body) == 1 and len(fb) == 1 and cts.dominates(J.bb, DL.bb)
        if ok:
            # the fallback is compiled outside every branch's region, before `end:` is defined
            ok = not cts.dominates(B.bb, fb[0].bb) and DE.bb in cts.reachable_after(fb[0].bb, cut_edges=cut2) \
                and fb[0].bb not in cts.reachable_after(DE.bb, cut_edges=cut2)
            # a branch's fall-through region always ends with Jump(end) before `next:` is defined
            ok = ok and emit.must_pass(cts, B.bb, [J.bb], [DL.bb], cut2)
            # `end:` is defined after the loop: not between Branch and the definition of `next`
            ok = ok and DE.bb not in cts.reachable_after(B.bb, cut_edges=cut2, cut_blocks={DL.bb})
    rep.check(bool(ok), "stmt:If|shape", "K9 emission template",
              "if: per branch [cond] Not Branch(next) [body] Jump(end) next: ; then [fallback] end: - each body once, inside its own region",
              "the `if` statement template lets a branch body run into the next branch / evaluates a body eagerly", cts.site())
    # R2 match
    cm = F.fn(CS + "compile_match_statement_or_expression")
    cutm = emit.err_edges(cm)
    evs = emit.events(F, cm, None)
    labels = [e for e in evs if e.kind == "label"]
    epis = [e for e in evs if e.kind == "epilogue"]
    bodies = [e for e in evs if e.kind == "compile" and (e.names & {"statements", "expression"})]
    arm_lbl = [e for e in labels if e.labels & {"arm_start"}]
    end_lbl = [e for e in labels if e.labels & {"end_label"}]
    rep.floor("match: arm bodies / arm labels / epilogues", min(len(bodies), len(arm_lbl), len(epis)), 2)
    ok = len(bodies) == len(arm_lbl) == len(epis) and len(end_lbl) >= 1
    if ok:
        for b in bodies:
            l = [x for x in arm_lbl if cm.dominates(x.bb, b.bb)]
            e = [x for x in epis if cm.dominates(b.bb, x.bb)]
            ok = ok and len(l) >= 1 and len(e) >= 1
            if l and e:
                # from the label definition, the loop head (next arm's label) is not reachable without the epilogue
                ok = ok and emit.must_pass(cm, b.bb, [x.bb for x in e], [x.bb for x in arm_lbl] + [x.bb for x in end_lbl], cutm)
        # dispatch loop: Branch emissions happen before any arm label is defined and no body compile there
        brs = [e for e in evs if e.kind == "emit" and e.variant in ("Branch", "Jump") and e.labels & {"arm_label"}]
        ok = ok and bool(brs) and all(not any(cm.dominates(l.bb, b.bb) for l in arm_lbl) for b in brs)
        ok = ok and all(any(cm.dominates(l.bb, b.bb) for l in arm_lbl) for b in bodies)
    rep.check(ok, "match|arm-bodies-isolated", "K9 emission template",
              "each arm body is compiled after its own label and is followed by the epilogue (End, Jump(end)) on every path; the dispatch loop compiles no body",
              "a match arm body can be entered without its label or falls through into the next arm", cm.site())
    ep = F.fn(CS + "compile_match_arm_epilogue")
    ee = emit.events(F, ep, None)
    vs = [e.variant for e in ee if e.kind == "emit"]
    rep.check(vs == ["End", "Jump"] or ("Jump" in vs and "End" in vs), "match|epilogue", "K9 emission template", "the epilogue emits End then Jump(end_label): %s" % vs, site=ep.site())
    # R3 VM
    step = F.fn("aranya_policy_vm::machine::RunState::step")
    sws = step.discr_switches("instructions::Instruction")
    outer = [sw for sw in sws if all(step.dominates(sw[0], o[0]) for o in sws)][0]
    arms = outer[1]
    reg = step.dominated_region(arms["Branch"])
    sets = [s for s in step.field_stores("pc") if s.bb in reg]
    pops = [c for c in step.calls if c.bb in reg and c.name in ("ipop", "pop", "pop_value")]
    ok = bool(sets) and bool(pops)
    if ok:
        # the pc store is dominated by the true edge of a switch on the popped bool
        good = False
        for b in reg:
            sw = step.switch_on(b)
            if sw and sw[0].place is not None and step.local_ty(sw[0].place.local) == "bool":
                t = sw[2] if 0 in sw[1] else sw[1].get(1)
                if all(step.dominates(t, s.bb) for s in sets) and any(k == "call" and c in pops for k, c in step.backward_sources(sw[0].place.local, through_calls=("Try::branch",))[1]):
                    good = True
        ok = good
    rep.check(ok, "vm|branch-taken-iff-true", "K7 table", "Instruction::Branch sets pc only on the true edge of the popped condition", site=step.site())
    regj = step.dominated_region(arms["Jump"])
    setsj = [s for s in step.field_stores("pc") if s.bb in regj]
    popsj = [c for c in step.calls if c.bb in regj and c.name in ("ipop", "pop", "pop_value")]
    rep.check(bool(setsj) and not popsj, "vm|jump-unconditional", "K7 table", "Instruction::Jump sets pc without consulting the stack", site=step.site())
