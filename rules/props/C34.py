"""C34 Command signatures bind command, name, parent and author.

Decided (structural binding and polarity):
 R1 K6  field coverage: Cmd::digest feeds the author key id and every field of Cmd (name, parent_id,
        data) as separate items to CipherSuiteExt::tuple_hash under a constant domain tag; the
        tuple_hash wrapper passes tag, suite OIDs and every context item through to the
        length-framing hash (only `chain`/`once`/`map(Oid::as_bytes)`: no filter/skip/take of items).
 R2 K5  sign_cmd and verify_cmd both compute cmd.digest(self.id()?) and both derive the id with
        policy::cmd_id(&digest, signature); verify_cmd returns Ok only after pk.verify(&digest, sig)
        succeeded; cmd_id hashes the digest and the raw signature.
 R3 K2  Ffi::verify returns Ok(()) only on the true edge of id.ct_eq(&command_id), where id is the
        result of verify_cmd over Cmd{data: command_bytes, name: ctx.name, parent_id: parent_id};
        Ffi::sign signs Cmd{data: command_bytes, name: ctx.name, parent_id: ctx.head_id}.
Not decided: cryptographic strength of the signature scheme and hash (spideroak-crypto, trusted)."""
from rules.core import pat
from rules.core.facts import Operand, PASS_THROUGH

CRATES = ["aranya_crypto", "aranya_crypto_ffi"]


def run(F, rep, tier):
    rep.explanation = __doc__
    dg = F.fn("aranya_crypto::policy::Cmd::digest")
    ths = [c for c in dg.calls if c.name == "tuple_hash"]
    if not ths:
        raw = sorted({c.name for c in dg.calls if c.name in ("update", "hash", "digest", "chain_update", "finalize")})
        rep.violation("Cmd::digest|fields-are-length-framed", "K6 field coverage",
                      "Cmd::digest no longer hashes its fields through the length-framing tuple_hash (it calls %s): concatenating name, parent id and data without "
                      "their lengths lets two different commands whose fields are shifted against each other share one digest, signature and command id" % (raw or "no tuple_hash"), dg.site())
        th = None
    else:
        th = pat.one(rep, ths, "tuple_hash in Cmd::digest", dg)
    cmd = F.adt("aranya_crypto::policy::Cmd")
    fields = [x["name"] for x in cmd["variants"][0]["fields"]]
    if th:
        arr = [s for k, s in dg.backward_sources(th.args[1].place.local, through_calls=())[1] if k == "stmt" and s.rv_kind() == "agg" and s.rv[1].get("k") == "array"]
        ok = len(arr) == 1
        covered = {}
        if ok:
            for i, o in enumerate(arr[0].operands()):
                org = dg.origins(o, through_calls=("as_bytes", "Id::as_bytes", "str::as_bytes"))
                for f in fields:
                    if "field:" + f in org and "arg:1" in org:
                        covered.setdefault(f, []).append(i)
                if "arg:2" in org:
                    covered.setdefault("<author>", []).append(i)
            n = len(arr[0].operands())
            distinct = len({tuple(v) for v in covered.values()}) == len(covered) and all(len(v) == 1 for v in covered.values())
            ok = set(covered) == set(fields) | {"<author>"} and n == len(fields) + 1 and distinct
        rep.check(ok, "digest|field-coverage", "K6 field coverage",
                  "tuple_hash receives exactly [author id, %s] as separate items (%s)" % (", ".join(fields), covered),
                  "Cmd::digest does not feed every Cmd field and the author id as separate tuple_hash items: covered %s of %s" % (sorted(covered), fields + ["<author>"]),
                  dg.site())
        tag = dg.origins(th.args[0], through_calls=())
        rep.check("const" in tag, "digest|domain-tag", "K6 provenance", "the domain tag is a constant", site=dg.site())
    te = [f for f in F.fns if f.name == "tuple_hash" and f.trait and f.trait.endswith("ext::CipherSuiteExt") and not f.j.get("in_trait")]
    te = pat.one(rep, te, "impl CipherSuiteExt::tuple_hash", dg)
    if te:
        h = [c for c in te.calls if c.is_("hash::tuple_hash")]
        names = sorted({c.name for c in te.calls})
        allowed = {"once", "into_iter", "map", "chain", "tuple_hash", "copied", "iter"}
        ok = len(h) == 1 and set(names) <= allowed
        if ok:
            org = te.origins(h[0].args[0], through_calls="*")
            ok = "argname:context" in org and "argname:tag" in org
            # context is chained directly
            ch = [c for c in te.calls if c.name == "chain" and "argname:context" in te.origins(c.args[1], through_calls=())]
            ok = ok and len(ch) == 1
        rep.check(ok, "tuple_hash|passes-every-item", "K6 field coverage",
                  "tuple_hash = hash::tuple_hash(once(tag).chain(OIDS).chain(context)): adaptors used %s" % names,
                  "CipherSuiteExt::tuple_hash filters or transforms the context items (adaptors: %s): field boundaries are no longer bound" % names, te.site())
    # R2
    sg = F.fn("aranya_crypto::aranya::SigningKey::sign_cmd")
    vf = F.fn("aranya_crypto::aranya::VerifyingKey::verify_cmd")
    for f in (sg, vf):
        d = [c for c in f.calls if c.is_("policy::Cmd::digest")]
        ci = [c for c in f.calls if c.is_("policy::cmd_id")]
        ok = len(d) == 1 and len(ci) == 1
        if ok:
            ao = f.origins(d[0].args[1], through_calls=PASS_THROUGH + ("id",))
            ok = "call:id" in ao
            ok = ok and any(k == "call" and c is d[0] for k, c in f.backward_sources(ci[0].args[0].place.local, through_calls=())[1])
            oks = pat.ok_returns(f)
            ok = ok and all("call:cmd_id" in f.origins(s.operands()[0], through_calls=()) for s in oks)
        rep.check(ok, "%s|digest-and-id" % f.name, "K5 sibling agreement",
                  "%s computes cmd.digest(self.id()?) and returns policy::cmd_id(&digest, sig)" % f.name, site=f.site())
    sgn = [c for c in sg.calls if c.name == "sign"]
    rep.check(len(sgn) == 1 and any(k == "call" and c.is_("policy::Cmd::digest") for k, c in sg.backward_sources(sgn[0].args[1].place.local, through_calls=("Deref::deref",))[1]),
              "sign_cmd|signs-the-digest", "K6 provenance", "the signature is over the command digest", site=sg.site())
    ver = [c for c in vf.calls if c.name == "verify"]
    ok = len(ver) == 1
    if ok:
        e = pat.ok_edge(vf, ver[0])
        oks = pat.ok_returns(vf)
        ok = e is not None and all(vf.dominates(e[1], s.bb) for s in oks) and any(k == "call" and c.is_("policy::Cmd::digest") for k, c in vf.backward_sources(ver[0].args[1].place.local, through_calls=("Deref::deref",))[1])
        ok = ok and "arg:3" in vf.origins(ver[0].args[2], through_calls=())
    rep.check(ok, "verify_cmd|ok-only-after-verify", "K2 guarded-by",
              "verify_cmd returns Ok(id) only on the success edge of pk.verify(&digest, &sig.0)",
              "verify_cmd can return an id without the signature having verified over the digest", vf.site())
    ci = F.fn("aranya_crypto::policy::cmd_id")
    nw = [c for c in ci.calls if c.name == "new"]
    ok = len(nw) == 1
    if ok:
        arr = [s for k, s in ci.backward_sources(nw[0].args[1].place.local, through_calls=())[1] if k == "stmt" and s.rv_kind() == "agg" and s.rv[1].get("k") == "array"]
        ok = len(arr) == 1 and len(arr[0].operands()) == 2
        if ok:
            o0, o1 = (ci.origins(o, through_calls="*") for o in arr[0].operands())
            ok = "arg:1" in o0 and "arg:2" in o1
    rep.check(ok, "cmd_id|binds-digest-and-signature", "K6 field coverage", "cmd_id = H(tag, digest, raw signature)", site=ci.site())
    # R3 FFI
    def ffi_fn(name):
        c = [f for f in F.fns if f.crate == "aranya_crypto_ffi" and f.file.endswith("src/ffi.rs") and f.name == name and f.kind == "AssocFn" and not f.derived]
        if len(c) != 1:
            from rules.core.facts import MissingAnchor
            raise MissingAnchor("crypto-ffi Ffi::%s: found %d" % (name, len(c)))
        return c[0]
    fv = ffi_fn("verify")
    ct = [c for c in fv.calls if c.name == "ct_eq"]
    vc = [c for c in fv.calls if c.name == "verify_cmd"]
    ok = len(ct) == 1 and len(vc) == 1
    if ok:
        oks = pat.ok_returns(fv)
        fb = [c for c in fv.calls if c.is_("From::from", "Into::into") and fv.local_ty(c.dest.local) == "bool"]
        al = fv.forward_aliases(ct[0].dest.local, through_calls=("From::from", "Into::into"))
        tedge = None
        for b in range(fv.nblocks):
            sw = fv.switch_on(b)
            if sw and sw[0].place is not None and sw[0].place.local in al:
                tedge = sw[2] if 0 in sw[1] else sw[1].get(1)
                fedge = sw[1].get(0, sw[2])
        ok = tedge is not None and bool(oks) and all(fv.dominates(tedge, s.bb) for s in oks)
        a0, a1 = fv.origins(ct[0].args[0], through_calls=PASS_THROUGH), fv.origins(ct[0].args[1], through_calls=())
        ok = ok and (("call:verify_cmd" in a0 and "argname:command_id" in a1) or ("call:verify_cmd" in a1 and "argname:command_id" in a0))
        errs = pat.err_aggs(fv, "InvalidCmdId")
        ok = ok and bool(errs)
    rep.check(ok, "Ffi::verify|id-equality-polarity", "K2 polarity",
              "Ok(()) lies on the true edge of verify_cmd(..)'s id .ct_eq(&command_id); the other edge returns InvalidCmdId",
              "Ffi::verify returns Ok(()) without (or against) the command-id comparison", fv.site())
    for f, parent_src, label in ((fv, "argname:parent_id", "verify"), (ffi_fn("sign"), "field:head_id", "sign")):
        ag = [s for s in f.stmts() if s.rv_kind() == "agg" and s.rv[1].get("adt", "").endswith("policy::Cmd")]
        ok = len(ag) == 1
        if ok:
            fl = ag[0].rv[1]["fields"]
            ops = ag[0].operands()
            do = f.origins(ops[fl.index("data")], through_calls="*")
            no = f.origins(ops[fl.index("name")], through_calls="*")
            po = f.origins(ops[fl.index("parent_id")], through_calls="*")
            ok = "argname:command_bytes" in do and "field:name" in no and parent_src in po
        rep.check(ok, "Ffi::%s|cmd-from-context" % label, "K6 provenance",
                  "Ffi::%s builds Cmd{data: command_bytes, name: ctx.name, parent_id: %s}" % (label, parent_src.split(":")[1]), site=f.site())
