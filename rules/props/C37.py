"""C37 Encryption round-trips and is bound to its context.

Decided (context coverage and sibling agreement; structural):
 For each seal/open pair -- GroupKey::{seal, open} (+ Context::to_bytes),
 EncryptionPublicKey::seal_group_key / EncryptionKey::open_group_key (GroupKeyInfo),
 seal_psk_seed / open_psk_seed (Info), apq TopicKey::{seal_message, open_message},
 apq seal_topic_key / open_topic_key (TopicKeyRotationInfo):
 R1 K6  every field of the context struct is initialised from a context parameter or a constant
        domain tag, and Context::to_bytes feeds every Context field as a separate tuple_hash item;
 R2 K5  both siblings build the context from the same components (same parameters/fields, same
        item order for tuple_hash contexts, same domain constant);
 R3 K6  inside each function the bytes used as KDF/HPKE `info` and as AEAD additional data have the
        same provenance (both derive from that context);
 R4 K5  HPKE roles are mirrored: same Mode variant on both sides; Mode::Auth carries the sender's
        secret key on the sealing side and the sender's public key on the opening side; the
        recipient's public key seals and its secret key opens.
 R5 K2  the short-input guards of the seal/open pairs are the strict `len < overhead()` (the empty
        plaintext's ciphertext is exactly overhead() bytes).
Not decided: ciphertext integrity and key secrecy themselves (AEAD/HPKE, trusted)."""
from rules.core import pat
from rules.core.facts import Operand, PASS_THROUGH

CRATES = ["aranya_crypto"]

PAIRS = [
    ("GroupKey", "aranya_crypto::groupkey::GroupKey::seal", "aranya_crypto::groupkey::GroupKey::open", "groupkey::Context"),
    ("group-key-wrap", "aranya_crypto::aranya::EncryptionPublicKey::seal_group_key", "aranya_crypto::aranya::EncryptionKey::open_group_key", "aranya::GroupKeyInfo"),
    ("psk-seed", "aranya_crypto::tls::psk::seal_psk_seed", "aranya_crypto::tls::psk::open_psk_seed", "tls::psk::Info"),
    ("apq-message", "aranya_crypto::apq::TopicKey::seal_message", "aranya_crypto::apq::TopicKey::open_message", None),
    ("apq-topic-key", "aranya_crypto::apq::ReceiverPublicKey::seal_topic_key", "aranya_crypto::apq::ReceiverSecretKey::open_topic_key", "apq::TopicKeyRotationInfo"),
]
AEAD = {"seal", "open", "seal_in_place", "open_in_place"}
NOISE = {"argname:rng", "argname:dst", "argname:plaintext", "argname:ciphertext", "argname:enc", "argname:encap", "argname:key", "argname:seed"}


def comps(f, op):
    o = f.origins(op, through_calls="*", max_depth=60)
    return {t for t in o if t.startswith(("argname:", "field:"))} - NOISE


def find(F, pat_):
    c = F.find(pat_)
    if not c:
        name = pat_.split("::")[-1]
        c = [f for f in F.fns if f.name == name and f.crate == "aranya_crypto" and f.kind == "AssocFn" and not f.derived]
    if len(c) != 1:
        from rules.core.facts import MissingAnchor
        raise MissingAnchor("%s: found %d" % (pat_, len(c)))
    return c[0]


def th_items(f):
    out = []
    for th in [c for c in f.calls if c.name == "tuple_hash"]:
        arr = [s for k, s in f.backward_sources(th.args[1].place.local, through_calls=())[1] if k == "stmt" and s.rv_kind() == "agg" and s.rv[1].get("k") == "array"]
        tag = None
        for k, d in f.backward_sources(th.args[0].place.local, through_calls=())[1]:
            if k == "stmt":
                for o in d.operands():
                    if o.const is not None and (o.const.get("dbg") or "").startswith('b"'):
                        tag = o.const["dbg"]
        if arr:
            out.append((tag, [sorted(comps(f, o)) for o in arr[0].operands()]))
    return out


def struct_init(f, adt_suffix):
    ag = [s for s in f.stmts() if s.rv_kind() == "agg" and s.rv[1].get("adt", "").endswith(adt_suffix)]
    if len(ag) != 1:
        return None
    fl = ag[0].rv[1]["fields"]
    out = {}
    for name, o in zip(fl, ag[0].operands()):
        if o.const is not None:
            out[name] = ["const:" + (o.const.get("dbg") or "")[:40]]
        else:
            c = sorted(comps(f, o))
            consts = []
            for k, d in f.backward_sources(o.place.local, through_calls="*")[1]:
                if k == "stmt":
                    for x in d.operands():
                        if x.const is not None and (x.const.get("dbg") or "").startswith('b"'):
                            consts.append("const:" + x.const["dbg"][:40])
                        for dd in f.const_defs(x.const) if x.const else []:
                            consts.append("constdef:" + dd.split("::")[-1])
            out[name] = c + sorted(set(consts))
    return out


def run(F, rep, tier):
    rep.explanation = __doc__
    n_pairs = 0
    for label, sp, op, ctx_adt in PAIRS:
        s, o = find(F, sp), find(F, op)
        n_pairs += 1
        sig = {}
        for role, f in (("seal", s), ("open", o)):
            aead = [c for c in f.calls if c.name in AEAD and not c.is_("GroupKey::seal", "GroupKey::open")]
            hp = [c for c in f.calls if c.name in ("setup_send", "setup_recv")]
            dk = [c for c in f.calls if c.name == "derive_key"]
            if len(aead) != 1:
                rep.anchor_missing("%s %s: expected one AEAD call, found %d" % (label, role, len(aead)))
                continue
            aad = comps(f, aead[0].args[-1])
            info = None
            if hp:
                info = comps(f, hp[0].args[-1])
            elif dk:
                info = comps(f, dk[0].args[-1])
            sig[role] = (aad, info, hp)
            if info is not None:
                rep.check(aad == info and bool(aad), "%s|%s|info-equals-aad" % (label, role), "K6 provenance",
                          "KDF/HPKE info and AEAD additional data derive from the same context components %s" % sorted(aad),
                          "%s %s: info components %s differ from AAD components %s" % (label, role, sorted(info), sorted(aad)), f.site())
            else:
                rep.check(bool(aad), "%s|%s|aad-nonempty" % (label, role), "K6 provenance", "the AEAD additional data derives from %s" % sorted(aad), site=f.site())
        if len(sig) == 2:
            rep.check(sig["seal"][0] == sig["open"][0], "%s|siblings-same-context" % label, "K5 sibling agreement",
                      "seal and open bind the same context components: %s" % sorted(sig["seal"][0]),
                      "%s: seal binds %s but open binds %s" % (label, sorted(sig["seal"][0]), sorted(sig["open"][0])), s.site())
            # tuple_hash item tables
            ts, to = th_items(s), th_items(o)
            if ts or to:
                rep.check(ts == to, "%s|siblings-same-tuple" % label, "K5 sibling agreement",
                          "both sides hash the same tagged item list: %s" % ts, "%s: tuple_hash items differ: %s vs %s" % (label, ts, to), s.site())
            if ctx_adt and not ctx_adt.endswith("Context"):
                a, b = struct_init(s, ctx_adt), struct_init(o, ctx_adt)
                adt = F.adt("aranya_crypto::" + ctx_adt)
                fields = [x["name"] for x in adt["variants"][0]["fields"]]
                ok = a is not None and a == b and set(a) == set(fields) and all(v for v in a.values())
                rep.check(ok, "%s|context-struct" % label, "K6 field coverage",
                          "both sides initialise every field of %s identically: %s" % (ctx_adt, a),
                          "%s: context struct %s built differently or incompletely: %s vs %s (fields %s)" % (label, ctx_adt, a, b, fields), s.site())
            # HPKE roles
            hs, ho = sig["seal"][2], sig["open"][2]
            if hs and ho:
                def mode(f, c, idx):
                    ag = [x for k, x in f.backward_sources(c.args[idx].place.local, through_calls=())[1] if k == "stmt" and x.rv_kind() == "agg" and x.rv[1].get("adt", "").endswith("hpke::Mode")]
                    if not ag:
                        return None, set()
                    v = ag[0].rv[1].get("variant")
                    org = f.origins(ag[0].operands()[0], through_calls=()) if ag[0].operands() else set()
                    return v, org
                ms, os_ = mode(s, hs[0], 1)
                mo, oo = mode(o, ho[0], 0)
                ok = ms == mo and ms is not None
                if ok and ms == "Auth":
                    ok = "field:sk" in os_ and "field:pk" in oo and "field:sk" not in oo
                pkr = s.origins(hs[0].args[2], through_calls=())
                skr = o.origins(ho[0].args[2], through_calls=())
                ok = ok and "field:pk" in pkr and "field:sk" in skr and "argname:self" in skr
                rep.check(ok, "%s|hpke-roles" % label, "K5 sibling agreement",
                          "Mode::%s on both sides; sender sk seals / sender pk opens; recipient pk seals / recipient sk (self) opens" % ms,
                          "%s: HPKE roles are not mirrored (send mode %s %s, recv mode %s %s, pkR %s, skR %s)" % (label, ms, sorted(os_), mo, sorted(oo), sorted(pkr), sorted(skr)), s.site())
    rep.floor("seal/open pairs", n_pairs, 5)
    # tuple_hash contexts anywhere under the pairs (direct or in a shared helper): no duplicated
    # item, and a context struct that contributes one field must contribute all of them
    from rules.core import k4
    from rules.core.facts import strip_generics
    cg = k4.CallGraph(F)
    roots = []
    for label, sp, op, ctx_adt in PAIRS:
        roots += [find(F, sp), find(F, op)]
    order, seen, stats = cg.reach(roots, scope=["aranya_crypto::apq::", "aranya_crypto::groupkey::", "aranya_crypto::aranya::", "aranya_crypto::tls::psk::"])
    nth = 0
    for f in order:
        for tag, items in th_items(f):
            nth += 1
            key = "%s|%s" % (f.path.split("::")[-2] + "::" + f.name, tag)
            nonempty = [tuple(i) for i in items if i]
            dup = [i for i in set(nonempty) if nonempty.count(i) > 1]
            rep.check(not dup, "tuple|%s|no-duplicate-item" % key, "K6 field coverage",
                      "no context item is hashed twice in place of another (%d items)" % len(items),
                      "%s hashes the same component twice (%s): another component has been dropped from the context" % (f.path, dup), f.site())
            # struct parameters
            for ai in range(1, f.nargs + 1):
                ty = strip_generics(f.local_ty(ai).replace("&mut ", "").replace("&", "").replace("'_ ", "").strip())
                adt = F.adts.get(ty)
                nm = f.local_name(ai)
                if not adt or not nm or adt["kind"] != "Struct":
                    continue
                flds = [x["name"] for x in adt["variants"][0]["fields"] if not x["name"].isdigit() and "PhantomData" not in x["ty"]]
                used = {t[6:] for i in items for t in i if t.startswith("field:")} & set(flds)
                from_this = any("argname:" + nm in i for i in items)
                if used and from_this and len(flds) > 1:
                    rep.check(used == set(flds), "tuple|%s|covers-all-of:%s" % (key, nm), "K6 field coverage",
                              "every field of `%s: %s` (%s) is part of the hashed context" % (nm, ty.split("::")[-1], flds),
                              "%s: context parameter `%s` contributes only %s of its fields %s" % (f.path, nm, sorted(used), flds), f.site())
    rep.floor("tuple_hash contexts examined", nth, 2)
    # Context::to_bytes coverage
    tb = F.fn("aranya_crypto::groupkey::Context::to_bytes")
    adt = F.adt("aranya_crypto::groupkey::Context")
    fields = [x["name"] for x in adt["variants"][0]["fields"]]
    items = th_items(tb)
    ok = len(items) == 1
    cov = {}
    if ok:
        for i, it in enumerate(items[0][1]):
            for f in fields:
                if "field:" + f in it:
                    cov.setdefault(f, []).append(i)
        ok = set(cov) == set(fields) and all(len(v) == 1 for v in cov.values()) and len(items[0][1]) == len(fields) and items[0][0] is not None
    rep.check(ok, "Context::to_bytes|field-coverage", "K6 field coverage",
              "every Context field (%s) is a separate tuple_hash item under tag %s" % (fields, items[0][0] if items else None),
              "Context::to_bytes does not cover every field: %s of %s" % (cov, fields), tb.site())
    overhead_guard_rule(F, rep)


def overhead_guard_rule(F, rep):
    """R5: the empty plaintext round-trips: its ciphertext is exactly `overhead()` bytes, so the
    'too short' guards of seal (on dst) and open (on the ciphertext) must be the strict `len < overhead()`,
    the same on both sides of each pair."""
    n = 0
    guards = {}
    for f in F.fns:
        if f.derived or f.crate != "aranya_crypto" or "test_util" in f.path:
            continue
        for c in f.cmp_switches():
            oa = f.origins(c["a"], through_calls="*")
            ob = f.origins(c["b"], through_calls="*")
            if "call:len" in (oa | ob) and "call:overhead" in (oa | ob):
                n += 1
                # normalise to (len OP overhead)
                op = c["op"]
                if "call:overhead" in oa and "call:len" in ob and "call:len" not in oa:
                    op = {"Lt": "Gt", "Gt": "Lt", "Le": "Ge", "Ge": "Le"}.get(op, op)
                guards[f.path] = (op, c)
                rep.check(op == "Lt", "%s|short-input-guard-is-strict" % f.path.replace("aranya_crypto::", ""), "K2 polarity",
                          "the guard is `len < overhead()`: an input of exactly overhead() bytes (empty plaintext) is accepted",
                          "%s compares the length with overhead() using `%s` (normalised to len OP overhead): an input of exactly overhead() bytes - the encryption of the empty "
                          "plaintext - is treated differently from the sealing side, so the empty plaintext does not round-trip" % (f.path, op), f.site())
    rep.floor("length-vs-overhead guards in aranya-crypto", n, 4)
