"""C40 AFC sequence numbers never repeat within a seal context.

Decided (structural):
 R1 K6  ReadState::seal re-derives the key after a list change with
        SealKey::from_raw(&chan.seal_key, cache.key.seq()) - the sequence number is carried over -
        whereas setup_seal_ctx starts at Seq::ZERO; these are the only two SealKey::from_raw sites.
 R2 K2  the cache (key, generation, idx) is replaced only on the is_ok edge of the seal closure: a
        failed seal keeps the old key and its sequence number.
 R3 K2  in-memory state: setup_seal_ctx fails with NotFound on the `lend() == None` edge (a second
        live seal context for the same channel cannot be created) and builds a context only on Some.
 R4 K10 SealCtx (both states) and Loan implement neither Clone nor Copy; AfcState::seal takes
        `&mut SealCtx`.
 R5 K6  the number that is carried over is the HPKE context's own next-to-use counter: aranya-crypto's
        SealKey::seq() returns self.ctx.seq() (spideroak SealCtx::seq), not a shadow copy kept beside the
        context (a copy of the *last used* number makes the re-derived key reuse it), and
        SealKey::from_raw hands its `seq` argument to SealCtx::new.
Not decided: the counter inside spideroak-crypto's SealKey (trusted); gaps under interleavings."""
from rules.core import afc, pat
from rules.core.facts import Operand, PASS_THROUGH

CRATES = ["aranya_fast_channels", "aranya_crypto"]


def run(F, rep, tier):
    rep.explanation = __doc__
    seal = afc.impl_fn(F, afc.R, "AfcState", "seal")
    setup = afc.impl_fn(F, afc.R, "AfcState", "setup_seal_ctx")
    sites = sorted({(f.root or f.path) for f in F.fns if f.crate == "aranya_fast_channels" and "testing" not in f.file for c in f.calls if c.is_("SealKey::from_raw")})
    rep.check(sites == sorted([seal.path, setup.path]), "from_raw|call-sites", "K3 who-may-call", "SealKey::from_raw is called only in ReadState::{setup_seal_ctx, seal}: %s" % [s.split("::")[-1] for s in sites],
              "unexpected SealKey::from_raw call sites: %s" % sites)
    fr = [c for c in seal.calls if c.is_("SealKey::from_raw")]
    ok = len(fr) == 1
    if ok:
        o = seal.origins(fr[0].args[1], through_calls=("seq", "SealKey::seq"))
        ok = "call:seq" in o and "field:key" in o and "const" not in o
        ko = seal.origins(fr[0].args[0], through_calls=())
        ok = ok and "field:seal_key" in ko
    rep.check(ok, "seal|resume-sequence", "K6 provenance",
              "the re-derived key continues at cache.key.seq()",
              "ReadState::seal re-derives the seal key without carrying the cached sequence number over (sequence numbers / nonces repeat after any list change)", seal.site())
    fr0 = [c for c in setup.calls if c.is_("SealKey::from_raw")]
    ok = len(fr0) == 1 and fr0[0].args[1].const is not None and (any(d.endswith("Seq::ZERO") for d in setup.const_defs(fr0[0].args[1].const)) or "ZERO" in (fr0[0].args[1].const.get("dbg") or ""))
    rep.check(ok, "setup_seal_ctx|starts-at-zero", "K6 provenance", "a fresh context starts at Seq::ZERO", site=setup.site())
    afc.reader_paths(F, rep, which=("seal",))
    # R3 memory
    ms = afc.impl_fn(F, "aranya_fast_channels::memory::State", "AfcState", "setup_seal_ctx")
    ld = [c for c in ms.calls if c.name == "lend"]
    ok = len(ld) == 1
    if ok:
        oe = ms.outcome_edges(ld[0])
        e = oe.get("Continue") or oe.get("Some")
        ags = [s for s in ms.stmts() if s.rv_kind() == "agg" and s.rv[1].get("adt", "").endswith("memory::SealCtx")]
        ok = e is not None and bool(ags) and all(ms.dominates(e[1], s.bb) for s in ags)
        ho = ms.origins(ags[0].operands()[ags[0].rv[1]["fields"].index("handle")], through_calls=PASS_THROUGH) if ok else set()
        ok = ok and "call:lend" in ho
    rep.check(ok, "memory::setup_seal_ctx|one-live-context", "K2 guarded-by",
              "a SealCtx is built only on the Some edge of Lender::lend (None -> NotFound)", site=ms.site())
    # R4
    for ty in ("memory::SealCtx", "shm::read::SealCtx", "memory::lender::Loan"):
        cl = [i for i in F.impls_of(ty, None) if i.get("trait") and i["trait"].endswith(("clone::Clone", "marker::Copy"))]
        rep.check(not cl, "%s|not-clone" % ty, "K10 type fact", "%s implements neither Clone nor Copy" % ty, "%s became Clone/Copy" % ty)
    for f in (seal, afc.impl_fn(F, "aranya_fast_channels::memory::State", "AfcState", "seal")):
        rep.check(f.local_ty(2).startswith("&mut"), "%s|ctx-by-mut-ref" % f.path.split("::")[-3], "K10 type fact", "seal takes the context by &mut: %s" % f.local_ty(2)[:60])
    # R5
    sq = F.fn("aranya_crypto::afc::keys::SealKey::seq")
    inner = [c for c in sq.calls if c.path and c.path.endswith("hpke::SealCtx::seq")]
    o = sq.origins(Operand(["c", {"l": 0, "p": []}]), through_calls="*")
    fields = {x for x in o if x.startswith("field:")}
    rep.check(len(inner) == 1 and "call:seq" in o and fields == {"field:ctx"}, "SealKey::seq|is-the-context-counter", "K6 provenance",
              "SealKey::seq() is Seq(self.ctx.seq()) - the HPKE context's next sequence number",
              "aranya-crypto's SealKey::seq() no longer returns the HPKE context's own counter (reads %s): ReadState::seal resumes a re-derived key from this value, so a shadow "
              "copy that lags the context (e.g. the last *used* number) makes the next seal reuse a sequence number and nonce" % sorted(fields), sq.site())
    fr = F.fn("aranya_crypto::afc::keys::SealKey::from_raw")
    nw = [c for c in fr.calls if c.path and c.path.endswith("hpke::SealCtx::new")]
    rep.check(len(nw) == 1 and "argname:seq" in fr.origins(nw[0].args[2], through_calls=()), "SealKey::from_raw|seq-reaches-the-context", "K6 provenance",
              "SealKey::from_raw passes its seq argument to SealCtx::new", "SealKey::from_raw does not start the HPKE context at the given sequence number", fr.site())
