"""C17 Sync sessions are sound and terminate.

Decided (structural):
 R1 K3  SyncResponder.to_send is assigned only from find_needed_segments (computed from the
        responder's own committed storage) or reset; the only in-place rewrite is the resume point
        computed in get_commands = Location::new(location.segment, location.max_cut + sent) of the
        entry being sent (applied by its caller, R3); commands are read with storage.get_segment(loc).get_from(loc) for loc taken
        from to_send.
 R2 K1+K10 parents first: find_needed_segments sorts `collected` before returning it, and Location
        derives Ord with `max_cut` as first field (an ancestor always has a smaller max_cut).
 R3 K1  all session progress - message_index, next_send and the in-place resume rewrite of
        to_send[i] - is applied only after the whole message fitted the buffer (success edge of
        target.get_mut(range)) in get_next and push; get_commands only computes; message_index
        grows by exactly checked_add(1) per response; SyncResponse carries message_index as response_index and SyncEnd as max_index.
 R4 K2  a session ends: get_next emits SyncEnd (and goes Idle) on the `next_send >= to_send.len()`
        edge; get_commands returns an index >= next_send computed from the loop variable.
 R5 K2  the requester accepts a response only when response_index == next_message_index and then
        bumps it by one (see also C18-R2).
 R6 K6  coverage bookkeeping: every TraversalQueue::cover_up_to(segment, coverage, longest) call is given the
        popped head's segment and max_cut as (segment, coverage) and that segment's longest_max_cut() as
        `longest` (swapped, a partly covered queued segment is dropped whole and its tail is never sent,
        while its descendants are: the requester gets commands without their parents).
Not decided: termination and ingestibility for arbitrary graph pairs (value-level progress)."""
from rules.core import pat
from rules.core.facts import Operand, Place, PASS_THROUGH

CRATES = ["aranya_runtime"]
THOROUGH_CONFIGS = ["lowmem"]   # thorough tier: the same rules on the low-mem-usage build
R = "aranya_runtime::sync::responder::SyncResponder::"


PROGRESS = ("next_send", "message_index")


def progress_write_sites(f):
    """(block, site) of element stores into self.to_send (through get_mut / index_mut)"""
    out = []
    for c in f.calls:
        if c.name in ("get_mut", "index_mut", "last_mut", "first_mut", "iter_mut", "swap", "as_mut_slice") and f.derives_from_field(c.args[0], "to_send"):
            al = f.forward_aliases(c.dest.local, through_calls=PASS_THROUGH) if c.dest is not None else set()
            for s_ in f.stmts():
                if s_.place is not None and s_.place.proj and s_.place.proj[0][0] == "d" and s_.place.local in al:
                    out.append((s_.bb, "%s:%d" % (f.file, s_.line)))
    return out


def progress_writes(f):
    return ["%s:%d" % (f.file, s_.line) for fld in PROGRESS for s_ in f.field_stores(fld)] + [w for b, w in progress_write_sites(f)]


def progress_helpers(F):
    """SyncResponder methods (other than the entry points) that write session progress"""
    out = []
    for f in F.fns:
        if f.path.startswith(R) and f.kind != "Closure" and f.name not in ("get_next", "push", "poll", "receive", "new", "reset", "get_commands", "dispatch"):
            if progress_writes(f):
                out.append(f)
    return out


def run(F, rep, tier):
    rep.explanation = __doc__
    # R1 writers of to_send
    writers = {}
    for f in F.fns:
        if f.derived or "SyncResponder" not in (f.self_ty or f.path):
            continue
        st = f.field_stores("to_send")
        mr = [s for s in f.stmts() if s.rv_kind() == "ref" and s.rv[1] == "mut" and "to_send" in Place(s.rv[2]).fields()]
        ag = [s for s in f.stmts() if s.rv_kind() == "agg" and s.rv[1].get("adt", "").endswith("responder::SyncResponder")]
        if st or mr or ag:
            writers[(f.root or f.path).split("::")[-1]] = (len(st), len(mr), len(ag))
    helpers = progress_helpers(F)
    allowed = {"poll", "new", "dispatch", "push", "get_next"} | {h.name for h in helpers}
    rep.check(set(writers) <= allowed and "poll" in writers, "to_send|writers", "K3 who-may-write",
              "to_send is written only in %s" % sorted(writers), "unexpected writer of SyncResponder.to_send: %s" % sorted(set(writers) - allowed))
    poll = F.fn(R + "poll")
    for s in poll.field_stores("to_send"):
        o = s.operands()[0] if s.rv_kind() == "agg" else Operand(s.rv[1])
        org = poll.origins(o, through_calls=PASS_THROUGH)
        rep.check("call:find_needed_segments" in org, "poll|to_send-from-find_needed_segments", "K6 provenance",
                  "poll assigns to_send := find_needed_segments(has, storage)", site=poll.site(s.line))
    gc = F.fn(R + "get_commands")
    rw = True
    if rw:
        ln = [c for c in gc.calls if c.is_("Location::new")]
        ok = False
        if len(ln) == 1:
            seg = gc.origins(ln[0].args[0], through_calls=())
            mc = gc.origins(ln[0].args[1], through_calls=PASS_THROUGH + ("MaxCut::checked_add", "checked_add"))
            ca = [c for c in gc.calls if c.name == "checked_add" and "field:max_cut" in gc.origins(c.args[0], through_calls=())]
            sent_l = gc.locals_named("sent")
            ok = "field:segment" in seg and "call:shortest_max_cut" not in mc and "call:first_location" not in mc and bool(ca)
            if ok:
                base = gc.backward_sources(ca[0].args[0].place.local)[0]
                segb = gc.backward_sources(ln[0].args[0].place.local)[0]
                loc_l = set(gc.locals_named("location"))
                ok = bool(base & loc_l) and bool(segb & loc_l)
                arg1 = gc.backward_sources(ca[0].args[1].place.local)[0]
                ok = ok and bool(arg1 & set(sent_l))
        rep.check(ok, "get_commands|resume-point", "K6 provenance",
                  "the resume entry is Location::new(location.segment, location.max_cut + sent) for the entry being sent",
                  "get_commands computes the resume point from something other than the current entry's max_cut + sent "
                  "(a mid-segment resume can move backwards: the session never ends)", gc.site())
        # read path
        gs = pat.trait_calls(gc, "storage::Storage", "get_segment")
        gf = [c for c in gc.calls if c.name == "get_from"]
        ok = bool(gs) and bool(gf)
        if ok:
            lo = gc.origins(gs[0].args[1], through_calls=("get", "slice::get", "Deref::deref"))
            ok = "field:to_send" in lo or "call:get" in lo
            lo2 = gc.backward_sources(gf[0].args[1].place.local)[0]
            ok = ok and bool(lo2 & set(gc.locals_named("location")))
        rep.check(ok, "get_commands|reads-own-storage", "K6 provenance",
                  "sent commands come from storage.get_segment(loc).get_from(loc) with loc = to_send[i]", site=gc.site())
    # R2
    fn = F.fn(R + "find_needed_segments")
    col = set(fn.locals_named("collected"))
    srt = [c for c in fn.calls if c.name in ("sort", "sort_unstable") and fn.backward_sources(c.args[0].place.local, through_calls=("DerefMut::deref_mut",))[0] & col]
    oks = pat.ok_returns(fn)
    ok = bool(srt) and bool(oks)
    if ok:
        ok = all(fn.dominates(srt[0].bb, s.bb) for s in oks) \
            and all(bool(fn.backward_sources(s.operands()[0].place.local)[0] & col) for s in oks)
        # nothing is added to collected after the sort
        later = [c for c in fn.calls if c.name in ("push", "push_bounded") and c.bb in fn.reachable_after(srt[0].bb)]
        ok = ok and not later
    rep.check(ok, "find_needed_segments|sorted-before-return", "K1 must-pass-through",
              "`collected` is sorted after the last insertion and before it is returned",
              "find_needed_segments returns the send list unsorted (children could precede parents)", fn.site())
    cu = [(f, c) for f, c in F.callers_of("TraversalQueue::cover_up_to") if not f.derived]
    if not cu:
        rep.anchor_missing("no call of TraversalQueue::cover_up_to found")
    for f, c in cu:
        o1 = f.origins(c.args[1], through_calls=PASS_THROUGH)
        o2 = f.origins(c.args[2], through_calls=PASS_THROUGH)
        o3 = f.origins(c.args[3], through_calls=PASS_THROUGH)
        ok = "field:segment" in o1 and "field:max_cut" in o2 and "call:longest_max_cut" not in o2 and "call:longest_max_cut" in o3 and "field:max_cut" not in o3
        if ok:
            # `longest` is the longest max_cut of the segment fetched for the same head
            lm = [x for x in f.calls if x.name == "longest_max_cut" and x.bb in {y.bb for k, y in f.backward_sources(c.args[3].place.local, through_calls=PASS_THROUGH)[1] if k == "call"}]
            ok = bool(lm) and any("call:get_segment" in f.origins(x.args[0], through_calls=PASS_THROUGH + ("get_segment",)) for x in lm)
        rep.check(ok, "%s|cover_up_to-arguments" % f.name, "K6 provenance",
                  "cover_up_to(head.segment, head.max_cut, segment.longest_max_cut())",
                  "%s calls TraversalQueue::cover_up_to with coverage / longest not being (the popped head's max_cut, its segment's longest_max_cut()): "
                  "a queued segment entered in the middle is then dropped whole instead of trimmed, and its uncovered tail is never sent" % f.name, f.site(c.line))
    loc = F.adt("aranya_runtime::storage::Location")
    fields = [x["name"] for x in loc["variants"][0]["fields"]]
    ords = [i for i in F.impls_of("storage::Location", "cmp::Ord") if i["derived"]]
    rep.check(fields[:1] == ["max_cut"] and bool(ords), "Location|ord-by-max_cut-first", "K10 type fact",
              "Location derives Ord with max_cut first: %s" % fields, "Location's ordering is not (derived, max_cut-first): %s" % fields)
    # R3 all session progress (message_index, next_send and the in-place resume rewrite of to_send[i]) is
    # applied only after the message fitted the caller's buffer
    gn = F.fn(R + "get_next")
    pw = progress_writes(gc)
    rep.check(not pw, "get_commands|computes-only", "K3 who-may-write",
              "get_commands writes no session progress (next_send, message_index, to_send[i]); it returns what to apply",
              "get_commands changes session progress (%s) before its caller knows whether the message fits the buffer: when the caller retries with a larger buffer after "
              "BufferTooSmall the commands already skipped in to_send are never sent" % ", ".join(pw), gc.site())
    for fn_ in (gn, F.fn(R + "push")):
        fit = [c for c in fn_.calls if c.name == "get_mut" and "argname:target" in fn_.origins(c.args[0], through_calls=())]
        fit1 = pat.one(rep, fit, "target.get_mut(range) fit check", fn_)
        if not fit1:
            continue
        oke = pat.ok_edge(fn_, fit1)
        sites = [(s_.bb, "%s:%d" % (fn_.file, s_.line)) for s_ in fn_.field_stores("message_index") + fn_.field_stores("next_send")]
        sites += [(b, w) for b, w in progress_write_sites(fn_)]
        sites += [(c.bb, c.site()) for c in fn_.calls if c.path and any(c.path == h.path for h in helpers)]
        early = [w for b, w in sites if oke is None or not fn_.dominates(oke[1], b)]
        rep.check(oke is not None and len(sites) >= 2 and not early, "%s|advance-after-fit" % fn_.name, "K1 must-pass-through",
                  "every change of session progress in %s (message_index, next_send, resume rewrite; %d sites) lies on the success edge of the buffer-fit check" % (fn_.name, len(sites)),
                  "%s advances the session before knowing the message fits (%s): a retry with a larger buffer would lose commands" % (fn_.name, ", ".join(early)), fn_.site())
    fit = [c for c in gn.calls if c.name == "get_mut" and "argname:target" in gn.origins(c.args[0], through_calls=())]
    fit = fit[0] if len(fit) == 1 else None
    if fit:
        mi = gn.field_stores("message_index")
        ok = False
        for s in mi:
            o = Operand(s.rv[1]) if s.rv_kind() == "use" else None
            if o is not None and o.place is not None:
                cas = [c for k, c in gn.backward_sources(o.place.local, through_calls=PASS_THROUGH)[1] if k == "call" and c.name == "checked_add"]
                ok = len(cas) == 1 and cas[0].args[1].val == 1 and gn.derives_from_field(cas[0].args[0], "message_index")
        rep.check(ok, "get_next|index-plus-one", "K6 provenance", "message_index := message_index.checked_add(1)", site=gn.site())
        for var, fld in (("SyncResponse", "response_index"), ("SyncEnd", "max_index")):
            ag = [s for s in gn.stmts() if s.rv_kind() == "agg" and s.rv[1].get("variant") == var]
            ok = False
            if ag:
                fl = ag[0].rv[1]["fields"]
                ok = gn.derives_from_field(ag[0].operands()[fl.index(fld)], "message_index")
            rep.check(ok, "get_next|%s.%s" % (var, fld), "K6 provenance", "%s.%s is self.message_index" % (var, fld), site=gn.site())
        # R4
        end = [s for s in gn.stmts() if s.rv_kind() == "agg" and s.rv[1].get("variant") == "SyncEnd"]
        cs = [c for c in gn.cmp_switches() if c["op"] in ("Ge", "Lt", "Gt", "Le") and (gn.derives_from_field(c["a"], "next_send") or gn.derives_from_field(c["b"], "next_send"))]
        ok = len(cs) == 1 and bool(end)
        if ok:
            c = cs[0]
            done_t = c["t"] if c["op"] in ("Ge", "Gt") else c["f"]
            ok = all(gn.dominates(done_t, s.bb) for s in end)
            idle = [s for s in gn.field_stores("state") if gn.dominates(done_t, s.bb)]
            ok = ok and bool(idle)
            gcs = [x for x in gn.calls if x.is_(R + "get_commands")]
            ok = ok and bool(gcs) and not any(gn.dominates(done_t, x.bb) for x in gcs)
        rep.check(ok, "get_next|end-when-exhausted", "K2 guarded-by",
                  "SyncEnd is written (state := Idle) exactly on the next_send >= to_send.len() edge; otherwise get_commands is called", site=gn.site())
    # R5
    g = F.fn("aranya_runtime::sync::requester::SyncRequester::get_sync_commands")
    cs = g.cmp_switches()
    idx = [c for c in cs if (g.derives_from_field(c["a"], "next_message_index") or g.derives_from_field(c["b"], "next_message_index"))
           and (g.derives_from_field(c["a"], "response_index") or g.derives_from_field(c["b"], "response_index"))]
    ok = len(idx) == 1
    if ok:
        st = g.field_stores("next_message_index")
        ok = bool(st) and all(g.dominates(idx[0]["eq"], s.bb) for s in st)
        for s in st:
            o = Operand(s.rv[1]) if s.rv_kind() == "use" else None
            cas = [c for k, c in g.backward_sources(o.place.local, through_calls=PASS_THROUGH)[1] if k == "call" and c.name == "checked_add"] if o is not None and o.place is not None else []
            ok = ok and len(cas) == 1 and cas[0].args[1].val == 1
    rep.check(ok, "requester|in-sequence", "K2 guarded-by",
              "the requester bumps next_message_index by 1 only on response_index == next_message_index", site=g.site())
