"""C27 Policy front ends are total.

Decided (structural may-panic analysis, every input text / every parsed policy):
 R1 K4  from parse_policy_document, parse_policy_str, parse_expression and
        Compiler::{compile, compile_interface}, through the parser, lowering, compiler, AST, module
        and text crates, every panicking construct (hard or overflow class) is in the audited table
        below with the invariant it relies on, by key and count; a new site or a higher count is a
        violation naming it. Internal-error (`bug!`/`assume`) sites are audited per function.
 R2 K2  beliefs the audit relies on and that can be checked: the parser builds an action's return type
        only as TypeKind::Unit or TypeKind::Result (compile_action's unreachable! arm); the two
        `unreachable!()` arms in lower_expression sit in inner re-matches on already selected
        comparison kinds.
Trusted: the pest-generated parser, PrattParser, markdown (mdast) and serde_yaml.
 R3 K2  compile_command's `assume("duplicates are prevented by compile_struct")` is backed: define_struct
        returns an error whenever an item repeats a field name already collected, and pushes no field
        without that lookup.
Not decided: stack exhaustion on deeply nested input (recursion depth is a runtime quantity)."""
from rules.core import k4, pat

CRATES = ["aranya_policy_lang", "aranya_policy_compiler", "aranya_policy_ast", "aranya_policy_module", "aranya_policy_text", "aranya_id"]
SCOPE = ["aranya_policy_lang::", "aranya_policy_compiler::", "aranya_policy_ast::", "aranya_policy_module::", "aranya_policy_text::"]
ENTRIES = ["markdown::parse_policy_document", "lang::parse::parse_policy_str", "lang::parse::parse_expression",
           "compile::Compiler::compile", "compile::Compiler::compile_interface"]

P = "aranya_policy_lang::lang::parse::ChunkParser::"
C = "aranya_policy_compiler::compile::CompileState::"
L = "aranya_policy_compiler::compile::lower::"
T = "aranya_policy_compiler::compile::types::IdentifierTypeStack::"
RULE = "pest guarantees the pair's rule: the caller dispatched on as_rule() / the grammar only nests this rule here"

AUDIT = {
    ("<aranya_policy_text::repr::arc::ArcStr as core::clone::Clone>::clone", "assert"): (1, "refcount overflow guard (> isize::MAX clones), as std Arc"),
    ("aranya_policy_text::repr::Repr::from_str", "copy_from_slice"): (1, "bytes[..len] and s.as_bytes() have equal length on the len <= MAX_INLINE branch"),
    ("aranya_policy_text::repr::Repr::from_str", "index[[u8; 22]]"): (1, "len <= MAX_INLINE == 22 on this branch"),
    ("aranya_policy_text::repr::arc::ArcStrInner::layout", "expect"): (2, "Layout::array::<u8>(len) for a real str length always fits"),
    (C + "anonymous_label", "expect"): (2, "label counter cannot wrap usize; `anonymous<N>` is always a valid identifier"),
    (C + "append_instruction", "expect"): (1, "write pointer cannot wrap usize (one per emitted instruction)"),
    (C + "compile_action", "unreachable"): (1, "parser builds action return types only as unit or result[..] (R2 checks the parser)"),
    (C + "compile_typed_statement", "expect"): (1, "wp + 2 cannot wrap usize"),
    (C + "exit_statement_context", "expect"): (1, "enter/exit_statement_context are paired by the compiler's own templates (C24-R3), not by input"),
    (C + "instruction_range_contains", "index[Vec]"): (1, "callers pass start..self.wp with start a previously recorded wp <= progmem.len()"),
    (C + "require_debug_mode", "expect"): (1, "inside tracing's warn! expansion (callsite metadata), not input dependent"),
    ("aranya_policy_compiler::compile::find_duplicate", "index[[T]]"): (1, "vec[..i] with i from enumerate() over the same slice"),
    (L + "lower_expression", "unreachable"): (2, "inner re-matches on the comparison kinds selected by the enclosing arm (R2)"),
    (L + "lower_match_statement_or_expression", "expect"): (1, "patterns.last() inside a loop over patterns"),
    (L + "lower_match_statement_or_expression", "index[Vec]"): (1, "default_patts[..] full-range slice"),
    (L + "lower_match_statement_or_expression", "unreachable"): (1, "slice pattern [a, b, ..] under `default_count > 1`"),
    (L + "lower_statements", "expect"): (1, "statements.last() inside a loop over statements"),
    (T + "add", "expect"): (2, "function/block scope stacks start non-empty and are pushed/popped in pairs by the compiler (C24-R3)"),
    (T + "add", "unreachable"): (1, "Occupied entry excluded by the get_key_value scan of the same block two lines above"),
    (T + "enter_block", "expect"): (1, "function scope stack non-empty (paired enter/exit_function)"),
    (T + "exit_block", "expect"): (2, "paired with enter_block by the compiler's templates"),
    (T + "exit_function", "expect"): (1, "paired with enter_function"),
    (P + "parse_action_call", "assert_eq"): (1, RULE), (P + "parse_action_definition", "assert_eq"): (1, RULE),
    (P + "parse_command_definition", "assert_eq"): (1, RULE), (P + "parse_debug_assert_statement", "assert_eq"): (1, RULE),
    (P + "parse_effect_definition", "assert_eq"): (1, RULE), (P + "parse_emit_statement", "assert_eq"): (1, RULE),
    (P + "parse_enum_definition", "assert_eq"): (1, RULE), (P + "parse_enum_reference", "assert_eq"): (1, RULE),
    (P + "parse_expression", "assert_eq"): (1, RULE), (P + "parse_function_decl", "assert"): (1, RULE),
    (P + "parse_function_definition", "expect"): (1, "function_definition's grammar requires a return type in its function_decl"),
    (P + "parse_ident", "assert_eq"): (1, RULE), (P + "parse_map_statement", "assert_eq"): (1, RULE),
    (P + "parse_match_expression", "assert_eq"): (1, RULE), (P + "parse_match_pattern", "assert_eq"): (1, RULE),
    (P + "parse_match_statement", "assert_eq"): (1, RULE), (P + "parse_publish_statement", "assert_eq"): (1, RULE),
    (P + "parse_struct_definition", "assert_eq"): (1, RULE), (P + "parse_update_statement", "assert_eq"): (1, RULE),
    (P + "parse_string_literal", "Overflow(Add)"): (11, "span arithmetic on sub-spans of the literal's own span (offsets < text length)"),
    (P + "parse_string_literal", "Overflow(Shl)"): (1, "u8 << 4: the shift amount is the constant 4"),
    (P + "parse_string_literal", "Overflow(Sub)"): (1, "full_str.len() - 1 with len >= 2 (the literal includes both quotes by the grammar)"),
    (P + "parse_string_literal", "index[str]"): (3, "[1..len-1] strips the ASCII quotes; contents[hex_idx..] starts at a byte the iterator just yielded after only ASCII bytes were consumed, hence a char boundary"),
    (P + "parse_type_inner", "expect"): (1, "inside tracing's warn! expansion"),
    ("aranya_policy_lang::lang::parse::PairContext::next", "refcell"): (1, "RefCell borrowed for the duration of one next() call only; no re-entrancy"),
    ("aranya_policy_lang::lang::parse::PairContext::peek", "refcell"): (1, "same, peek()"),
    ("aranya_policy_lang::lang::parse::error::ParseError::with_offset::{closure#0}", "expect"): (1, "span + chunk offset is a position inside the document text"),
    ("aranya_policy_lang::lang::parse::hex_char_to_nibble", "Overflow(Add)"): (2, "ch - b'a' + 10 with ch in the matched range"),
    ("aranya_policy_lang::lang::parse::hex_char_to_nibble", "Overflow(Sub)"): (3, "ch - base with ch >= base by the match arm's range"),
    ("aranya_policy_lang::lang::parse::markdown::extract_policy_from_markdown", "expect"): (1, "mdast always records a position for parsed (not synthesised) nodes"),
}
BUG_AUDIT = {
    "aranya_policy_ast::span::Span::new": "debug_assert!(start <= end) on spans built from pest positions",
    C + "compile_command": "field-name duplicates were rejected by define_struct for the same field list (R3 checks that define_struct still rejects every duplicate)",
    C + "compile_enum_definition": "enum value counter (i64) cannot overflow for parsed enums",
    C + "compile_match_statement_or_expression": "internal consistency of lowered match arms",
    C + "compile_typed_expression": "internal consistency of typed IR", C + "define_builtin": "builtin table is static",
    C + "define_interfaces": "debug_assert on topological order",
    C + "get_statement_context::{closure#0}": "statement context stack non-empty (compiler pairing)",
    C + "resolve_target::{closure#0}": "unresolved label = compiler bug, reported as an error value",
    L + "lower_expression": "typed-IR invariants", L + "lower_match_statement_or_expression": "pattern bookkeeping",
    L + "lower_statements": "context bookkeeping",
    P + "parse_ident": "identifier text validated by the grammar", P + "parse_string_literal": "escape sequences are complete by the grammar; offsets in range",
    P + "parse_type_inner": "grammar alternatives", "aranya_policy_lang::lang::parse::markdown::extract_policy_from_markdown": "offset + 10 cannot wrap",
    "aranya_policy_lang::lang::parse::parse_expression::inner": "exactly one expression pair by the grammar",
    "aranya_policy_text::ident::Identifier::validate": "debug_assert after the same condition was tested",
    "aranya_policy_text::repr::Repr::as_str": "debug_assert on the inline length invariant",
}


def run(F, rep, tier):
    rep.explanation = __doc__
    entries = []
    for p in ENTRIES:
        entries.append(F.fn(p))
    order, found, bugs = k4.run_k4(F, rep, entries, AUDIT, BUG_AUDIT, scope=SCOPE)
    rep.floor("front-end functions reached", len(order), 1500)
    # R2: parser builds action return types as Unit / Result only
    pa = F.fn(P + "parse_action_definition")
    kinds = set()
    for s in pa.stmts():
        if s.rv_kind() == "agg" and s.rv[1].get("adt", "").endswith("::TypeKind"):
            kinds.add(s.rv[1].get("variant"))
    rep.check(kinds == {"Unit", "Result"}, "belief|action-return-types", "K7 table",
              "parse_action_definition constructs only TypeKind::%s" % sorted(kinds),
              "the parser can now produce action return types %s: compile_action's unreachable!() arm becomes reachable" % sorted(kinds), pa.site())
    ca = F.fn(C + "compile_action")
    sw = [x for x in ca.discr_switches("TypeKind")]
    ok = False
    if sw:
        b, arms, other, st = sw[0]
        handled = {v for v, t in arms.items() if t != other}
        ok = {"Unit", "Result"} <= handled
    rep.check(ok, "belief|compile_action-handles-both", "K7 table", "compile_action has explicit arms for Unit and Result", site=ca.site())
    le = F.fn(L + "lower_expression")
    unr = [c for c in le.calls if k4.callee_kind(c) and k4.callee_kind(c)[1] == "unreachable"]
    eks = le.discr_switches("ExprKind")
    outer = [x for x in eks if all(le.dominates(x[0], y[0]) for y in eks)]
    ok = bool(outer) and bool(unr)
    if ok:
        ob, oarms, oother, _ = outer[0]
        for c in unr:
            cands = [x for x in eks if x[0] != ob and le.dominates(x[0], c.bb) and not le.is_unreachable_block(x[2])
                     and c.bb in le.reachable(x[2], cut_blocks=set(x[1].values()))]
            good = False
            for (ib, iarms, iother, _) in cands:
                outer_vs = {v for v, t in oarms.items() if ib in le.reachable(t, cut_blocks={ob})}
                if outer_vs and outer_vs <= set(iarms):
                    good = True
            ok = ok and good
    rep.check(ok, "belief|lower_expression-inner-rematch", "K7 exhaustiveness",
              "each unreachable!() in lower_expression is the default arm of a re-match listing every kind its enclosing arm admits",
              "an inner re-match in lower_expression no longer lists every expression kind admitted by its enclosing arm", le.site())
    # R3: the belief behind compile_command's `assume("duplicates are prevented by compile_struct")`
    cc = F.fn(C + "compile_command")
    believes = [c for c in cc.calls if k4.callee_kind(c) and k4.callee_kind(c)[0] == "bug" and any("insert" == x.name for x in cc.calls if x.bb in cc.pred(c.bb) or True)]
    ds = F.fn(C + "define_struct")
    finds = [c for c in ds.calls if c.is_("Iterator::find")]
    pushes = [c for c in ds.calls if c.name == "push"]
    if believes:
        rep.floor("define_struct duplicate lookups", len(finds), 2)
        from rules.core import emit
        cut = emit.err_edges(ds)
        for i, c in enumerate(finds):
            oe = ds.outcome_edges(c)
            ok = "Some" in oe
            if ok:
                r = ds.reachable(oe["Some"][1], cut_edges=cut)
                oks = {s.bb for s in pat.ok_returns(ds)}
                ok = c.bb not in r and not (r & oks) and not any(p.bb in r for p in pushes)
            rep.check(ok, "belief|define_struct-rejects-duplicate#%d" % i, "K2 guarded-by",
                      "a field whose name is already present makes define_struct return an error (no path from the `found` edge back into the loop, to a push, or to Ok)",
                      "define_struct can accept a struct whose items repeat a field name, but compile_command inserts the same items into a NamedMap under "
                      "`assume(\"duplicates are prevented by compile_struct\")`: the compiler panics (debug) on such a command", c.site())
        # every push of a field is preceded by such a lookup
        for i, p in enumerate(pushes):
            rep.check(any(ds.dominates(c.bb, p.bb) for c in finds), "belief|define_struct-push-checked#%d" % i, "K1 must-pass-through",
                      "each field pushed into the definition was looked up among the fields collected so far", site=p.site())
