"""C25 The VM never panics on any bytecode.

Decided (structural, all bytecode / stack / IO results):
 R1 K7  RunState::step dispatches on the Instruction discriminant with an explicit arm for
        every variant (the `otherwise` edge is unreachable), and every inner re-match whose
        default arm panics is reached only from outer arms whose variants the inner match
        lists explicitly (so the default arm is dead).
 R2 K2  `progmem[pc]` is dominated by the false edge of `pc >= progmem.len()`.
 R3 K4  no unaudited may-panic site reachable from the VM entry points.
Not decided: panics inside foreign-function modules and MachineIO implementations
(trait objects supplied by the embedder), allocation failure, stack exhaustion."""
from rules.core import k4
from rules.core.facts import Operand, Place, variant_names

CRATES = ["aranya_policy_vm", "aranya_policy_module", "aranya_policy_ast", "aranya_policy_text", "aranya_id"]

ENTRY_PATS = [
    "machine::RunState::step", "machine::RunState::run", "machine::RunState::call_action",
    "machine::RunState::call_command_policy", "machine::RunState::call_open",
    "machine::RunState::call_seal", "machine::RunState::setup_action",
    "machine::RunState::setup_command", "machine::RunState::setup_function",
    "machine::RunState::call_command_recall", "machine::RunState::set_pc_by_label",
    "machine::Machine::from_module", "machine::Machine::deserialize_struct",
    "machine::Machine::serialize_struct", "machine::Machine::create_run_state",
    "machine::Machine::call_action", "machine::Machine::call_command_policy",
]
REQUIRED = 13  # entries that must exist (floor)

AUDIT = {
    ("aranya_policy_vm::machine::RunState::step", "index[Vec]"):
        (1, "progmem[pc]: guarded by `pc >= progmem.len()` early return (checked by R2)"),
    ("aranya_policy_vm::machine::RunState::step", "unreachable"):
        (3, "default arms of inner re-matches on the already selected instruction (checked dead by R1)"),
    ("<aranya_policy_text::repr::arc::ArcStr as core::clone::Clone>::clone", "assert"):
        (1, "refcount overflow guard (> isize::MAX clones), same as std::sync::Arc; not reachable from bytecode"),
    ("aranya_policy_text::repr::Repr::from_str", "copy_from_slice"):
        (1, "bytes[..len] and s.as_bytes() both have length len (len <= MAX_INLINE tested on the branch)"),
    ("aranya_policy_text::repr::Repr::from_str", "index[[u8; 22]]"):
        (1, "bytes[..len] with len <= MAX_INLINE == 22 on this branch"),
    ("aranya_policy_module::codemap::CodeMap::span_from_instruction", "index[Vec]"):
        (1, "mapping[idx]: idx is binary_search's Ok(idx) or Err(idx)-1 with idx >= 1, both < len"),
    ("aranya_policy_module::codemap::SpannedText::as_str", "index[str]"):
        (1, "text[start..end]: SpannedText::new only succeeds when text.get(start..end) is Some (checked by R4)"),
    ("aranya_policy_module::codemap::SpannedText::linecol", "assert"):
        (1, "assert!(pos <= len): pos is start or end, both <= len by SpannedText::new (R4 checks the bound is <=, not <)"),
    ("aranya_policy_module::codemap::SpannedText::linecol", "index[str]"):
        (1, "text[0..pos]: pos is a char boundary <= len by SpannedText::new"),
    ("aranya_policy_module::codemap::SpannedText::linecol", "expect"):
        (2, "line/col counters: at most text.len() increments, cannot wrap usize"),
    ("aranya_policy_text::repr::arc::ArcStrInner::layout", "expect"):
        (2, "Layout::array::<u8>(len) for len = s.len() <= isize::MAX always fits; header + len fits for any real str"),
}
BUG_AUDIT = {
    "aranya_policy_vm::machine::RunState::step": "checked_add(1).assume on pc/stack sizes (< isize::MAX) and usize->i64 of a count bounded by i64 limit",
    "aranya_policy_ast::span::Span::new": "debug_assert!(start <= end) on compiler-produced spans; not bytecode-dependent",
    "aranya_policy_text::ident::Identifier::validate": "debug_assert after the same condition was tested",
    "aranya_policy_text::repr::Repr::as_str": "debug_assert on inline length invariant (constructor-established)",
}


def run(F, rep, tier):
    rep.explanation = __doc__
    step = F.fn("aranya_policy_vm::machine::RunState::step")
    instr = F.adt("aranya_policy_module::Instruction")
    names = {int(v["discr"]): v["name"] for v in instr["variants"]}
    rep.floor("Instruction variants", len(names), 51)

    # --- R1: all switches on discriminant(Instruction)
    switches = []
    for s in step.stmts():
        if s.rv_kind() == "discr" and s.rv[2] and s.rv[2].endswith("::Instruction"):
            dl = s.place.local
            for b in range(step.nblocks):
                sw = step.switch_on(b)
                if sw and sw[0].place is not None and sw[0].place.local == dl and not sw[0].place.proj:
                    switches.append((b, sw[1], sw[2], s))
    if not switches:
        rep.anchor_missing("no switch on the Instruction discriminant in RunState::step")
        return
    # the outer switch dominates all others
    outer = None
    for sw in switches:
        if all(step.dominates(sw[0], o[0]) for o in switches):
            outer = sw
    if outer is None:
        rep.anchor_missing("no dominating dispatch switch in RunState::step")
        return
    ob, oarms, ootherwise, _ = outer
    missing = [n for v, n in names.items() if v not in oarms]
    dead_default = step.is_unreachable_block(ootherwise)
    rep.check(not missing and dead_default, "step|dispatch-exhaustive", "K7 exhaustiveness",
              "every one of the %d Instruction variants has an explicit arm; default edge unreachable" % len(names),
              "Instruction variants without an explicit arm in RunState::step: %s (default arm live: %s)" % (missing, not dead_default),
              step.site())
    # arms whose first action is a panic
    for v, tgt in sorted(oarms.items()):
        b = tgt
        hops = 0
        panics = False
        while hops < 6:
            c = step.call_at(b)
            if c is not None:
                ck = k4.callee_kind(c)
                if ck and ck[0] == "hard" and c.target is None:
                    panics = True
                break
            t = step.term(b)
            if t[0] == "goto":
                b = t[1]
                hops += 1
                continue
            break
        rep.check(not panics, "step|arm:%s" % names.get(v, v), "K7 exhaustiveness",
                  "handler of Instruction::%s does not start with a panic" % names.get(v, v),
                  "Instruction::%s is handled by a panicking arm (todo!/unimplemented!/unreachable!)" % names.get(v, v),
                  step.site())
    # inner re-matches
    inner_n = 0
    for (b, arms, otherwise, s) in switches:
        if b == ob:
            continue
        if step.is_unreachable_block(otherwise):
            continue
        inner_n += 1
        outer_vs = {v for v, tgt in oarms.items() if step.dominates(tgt, b)}
        uncovered = sorted(names[v] for v in outer_vs if v not in arms)
        rep.check(bool(outer_vs) and not uncovered, "step|inner-rematch:%s" % "+".join(sorted(names[v] for v in arms)),
                  "K7 exhaustiveness",
                  "inner re-match lists every variant its enclosing arm admits (%s); default arm dead" % sorted(names[v] for v in outer_vs),
                  "inner re-match on `instruction` does not list %s, admitted by the enclosing arm: its default arm is live" % uncovered,
                  step.site(s.line))
    rep.floor("inner re-matches with a default arm", inner_n, 3)

    # --- R2: progmem[pc] guard
    idx = [c for c in step.calls if c.is_("Index::index") and "Vec" in (c.self_ty or "")]
    ge = None
    for s in step.stmts():
        if s.rv_kind() == "bin" and s.rv[1] == "Ge":
            for b in range(step.nblocks):
                sw = step.switch_on(b)
                if sw and sw[0].place is not None and sw[0].place.local == s.place.local:
                    ge = (b, sw[1].get(0))
                    break
            if ge:
                break
    for c in idx:
        rep.check(ge is not None and ge[1] is not None and step.dominates(ge[1], c.bb), "step|progmem-index-guard",
                  "K2 guarded-by", "progmem[pc] is dominated by the false edge of `pc >= progmem.len()`", site=c.site())
    rep.floor("progmem index sites", len(idx), 1)

    # --- R4: code-map positions (error reporting path of every failing instruction)
    new = F.fn("aranya_policy_module::codemap::SpannedText::new")
    aggs = [(f, s) for f in F.fns for s in f.stmts() if s.rv_kind() == "agg" and s.rv[1].get("adt", "").endswith("codemap::SpannedText")]
    gets = [c for c in new.calls if c.is_("str::get")]
    ok = bool(aggs) and all(f is new for f, _ in aggs) and len(gets) == 1
    if ok:
        isome = [c for c in new.calls if c.is_("Option::is_some")]
        oe = new.outcome_edges(isome[0]) if isome else {}
        ok = "true" in oe and all(new.dominates(oe["true"][1], s.bb) for _, s in aggs)
    rep.check(ok, "SpannedText|constructed-only-when-in-range", "K3 who-may-construct",
              "SpannedText {..} is built only in SpannedText::new on the `text.get(start..end).is_some()` edge", site=new.site())
    lc = F.fn("aranya_policy_module::codemap::SpannedText::linecol")
    panics = [c for c in lc.calls if k4.callee_kind(c) and k4.callee_kind(c)[1] == "assert"]
    for c in panics:
        guards = [g for g in lc.cmp_switches() if c.bb in lc.reachable(g["f"]) and c.bb not in lc.reachable(g["t"])]
        good = len(guards) == 1 and guards[0]["op"] == "Le" and guards[0]["a"].place is not None \
            and 2 in lc.backward_sources(guards[0]["a"].place.local)[0]
        rep.check(good, "linecol|assert-admits-end", "K2 guarded-by",
                  "linecol's assertion is `pos <= text.len()` (SpannedText::new admits start == end == len)",
                  "linecol asserts a bound stricter than what SpannedText::new guarantees (pos may equal text.len()): host panic on a span at end of text",
                  lc.site(c.line))

    # --- R3: K4
    entries = []
    for p in ENTRY_PATS:
        fs = F.find(p)
        entries += fs
    rep.floor("VM entry points", len(entries), REQUIRED)
    k4.run_k4(F, rep, entries, AUDIT, BUG_AUDIT)
