"""C47 C string output never overflows its buffer.

Decided (structural, all buffer sizes and all formatted texts):
 R1 K3  in cstr.rs every store into the caller buffer goes through a bounds-checked slice
        (`get_mut` / `split_last_mut` results) using copy_from_slice / MaybeUninit::write;
        no unsafe callee, no store through a raw pointer, and the only raw-pointer deref is a
        *shared* reborrow (the read-only cast of the source bytes); no Index/IndexMut.
 R2 K4  no unaudited may-panic site reachable from write_c_str.
 R3 K2  CStrWriter::finish returns Ok only on the `nw <= dst.len()` edge.
 R4 K1  CStrWriter::write updates `nw` on every path that got past the empty-input return.
 R5 K6  the counter is a running total: the sum stored into `nw` is `*nw` (read straight from the
        field, not clamped to the buffer) saturating_add the fragment's length.
Not decided: that get_mut(nw..end) addresses the right bytes for every fragment sequence (value-level)."""
from rules.core import k4
from rules.core.facts import Place, Operand

CRATES = ["aranya_capi_core"]
FILE = "aranya-capi-core/src/cstr.rs"

ALLOWED_STORE_CALLS = ("slice::copy_from_slice", "mem::MaybeUninit::write", "maybe_uninit::MaybeUninit::write")
SLICE_SOURCES = ("slice::get_mut", "slice::split_last_mut", "option::Option::and_then")

AUDIT = {
    ("aranya_capi_core::cstr::CStrWriter::write", "copy_from_slice"):
        (1, "dst = get_mut(nw..end) has length end-nw == src.len() whenever it exists (a saturated `end` makes get_mut fail)"),
}
BUG_AUDIT = {
    "aranya_capi_core::cstr::write_c_str": "assume on fmt::Error: CStrWriter::write_str never returns Err",
}


def is_raw(ty):
    return ty.startswith("*const ") or ty.startswith("*mut ")


def run(F, rep, tier):
    rep.explanation = __doc__
    fns = [f for f in F.fns_in_file(FILE) if not f.derived and "WriteCStrError" not in f.path]
    rep.floor("functions in cstr.rs", len(fns), 5)
    raw_derefs = 0
    for f in fns:
        for c in f.calls:
            if c.unsafe and not (c.exp and any('format_args' in m or 'FormatLiteral' in m for m in c.macs)):
                rep.violation("%s|unsafe-call:%s" % (f.path, c.name), "K3 unsafe inventory",
                              "call to unsafe fn %s in cstr.rs" % c.path, c.site())
            if c.is_("Index::index", "IndexMut::index_mut") or (c.name or "").startswith("get_unchecked") \
                    or (c.path or "").startswith("core::ptr::write") or c.is_("ptr::copy_nonoverlapping", "ptr::copy", "slice::from_raw_parts_mut", "intrinsics::copy_nonoverlapping"):
                rep.violation("%s|unchecked-access:%s" % (f.path, c.name), "K3 who-may-write",
                              "unchecked or indexing access %s in cstr.rs" % c.path, c.site())
        for s in f.stmts():
            # store through raw pointer?
            if s.place is not None:
                p = s.place
                for i, pr in enumerate(p.proj):
                    if pr[0] == "d" and i == 0 and is_raw(f.local_ty(p.local)):
                        rep.violation("%s|raw-store" % f.path, "K3 who-may-write", "store through a raw pointer", f.site(s.line))
            if s.rv_kind() in ("ref", "rawptr"):
                sp = Place(s.rv[2])
                if sp.proj and sp.proj[0][0] == "d" and is_raw(f.local_ty(sp.local)):
                    raw_derefs += 1
                    ok = s.rv_kind() == "ref" and s.rv[1] == "shared" and "*const" in f.local_ty(sp.local)
                    rep.check(ok, "%s|raw-deref" % f.path, "K3 unsafe inventory",
                              "raw pointer deref is a shared reborrow of a *const (read-only source cast)",
                              "raw pointer deref that is mutable or through *mut in cstr.rs", f.site(s.line))
            if s.kind == "intrinsic":
                rep.violation("%s|intrinsic" % f.path, "K3 who-may-write", "intrinsic statement (copy_nonoverlapping?)", f.site(s.line))
        rep.ok("K3 unsafe inventory", "%s: %d calls scanned, none unsafe/unchecked" % (f.path, len(f.calls)), f.site())
    rep.check(raw_derefs <= 1, "cstr|raw-deref-count", "K3 unsafe inventory", "at most one raw-pointer deref in cstr.rs (found %d)" % raw_derefs)

    # stores: first arg of the allowed store calls derives from a checked slice source
    w = F.fn("aranya_capi_core::cstr::CStrWriter::write")
    fin = F.fn("aranya_capi_core::cstr::CStrWriter::finish")
    nstores = 0
    for f in (w, fin):
        for c in f.calls:
            if c.is_(*ALLOWED_STORE_CALLS):
                nstores += 1
                locs, sites = f.backward_sources(c.args[0].place.local, through_calls="*")
                srcs = [x for k, x in sites if k == "call"]
                ok = any(x.is_(*SLICE_SOURCES) for x in srcs)
                rep.check(ok, "%s|store-via-checked-slice:%s" % (f.name, c.name), "K3 who-may-write",
                          "destination of %s derives from get_mut/split_last_mut" % c.name, site=c.site())
    rep.floor("buffer stores", nstores, 2)
    # closure in write: uses get_mut
    cl = F.closures_of(w)
    rep.check(any(any(c.is_("slice::get_mut") for c in g.calls) for g in cl), "write|closure-get_mut", "K3 who-may-write",
              "the sub-slice is taken with get_mut(range) inside and_then", site=w.site())

    # R2
    k4.run_k4(F, rep, [F.fn("aranya_capi_core::cstr::write_c_str")], AUDIT, BUG_AUDIT)

    # R3
    le = None
    for s in fin.stmts():
        if s.rv_kind() == "bin" and s.rv[1] == "Le":
            for b in range(fin.nblocks):
                sw = fin.switch_on(b)
                if sw and sw[0].place is not None and sw[0].place.local == s.place.local:
                    le = (s, sw)
    oks = [s for s in fin.stmts() if s.rv_kind() == "agg" and s.rv[1].get("variant") == "Ok" and s.place.local == 0]
    if le is None or not oks:
        rep.anchor_missing("finish: `nw <= dst.len()` test or Ok return not found")
    else:
        s, (op, arms, other) = le
        a, b = Operand(s.rv[2]), Operand(s.rv[3])
        # lhs derives from *nw, rhs from dst.len()
        lhs_ok = any(k == "stmt" and any(p.last_field() == "nw" for p in d.src_places()) for k, d in fin.backward_sources(a.place.local)[1])
        rhs_ok = any(k == "call" and d.is_("slice::len") for k, d in fin.backward_sources(b.place.local)[1])
        true_tgt = other if 0 in arms else arms.get(1)
        rep.check(lhs_ok and rhs_ok and all(fin.dominates(true_tgt, o.bb) for o in oks), "finish|ok-guard", "K2 guarded-by",
                  "Ok(()) is returned only on the true edge of `*nw <= dst.len()`", site=fin.site(s.line))
        # the saturating increment precedes the test
        incs = [c for c in fin.calls if c.is_("num::saturating_add")]
        rep.check(bool(incs) and all(fin.dominates(c.bb, s.bb) for c in incs), "finish|increment-before-test", "K1 must-pass-through",
                  "the NUL is counted (saturating_add(1)) before the size test", site=fin.site(s.line))

    # R4
    sat = [c for c in w.calls if c.is_("num::saturating_add")]
    if len(sat) != 1:
        rep.anchor_missing("write: expected one saturating_add")
    else:
        stores = {s.bb for s in w.stmts() if s.place is not None and s.place.proj and s.place.proj[0][0] == "d"
                  and any(k == "stmt" and any(p.last_field() == "nw" for p in d.src_places()) for k, d in w.defs().get(s.place.local, []))}
        reach = w.reachable(sat[0].target, cut_blocks=stores)
        rep.check(bool(stores) and not any(r in reach for r in w.returns()), "write|nw-updated-on-all-paths", "K1 must-pass-through",
                  "every path after computing `end` stores it into *nw before returning (fitting and non-fitting)",
                  site=w.site())
        # the stored value is `end`
        endl = sat[0].dest.local
        good = True
        for s in w.stmts():
            if s.bb in stores and s.place is not None and s.place.proj and s.place.proj[0][0] == "d" and s.rv_kind() == "use":
                o = Operand(s.rv[1])
                if o.place is None or endl not in w.backward_sources(o.place.local)[0]:
                    good = False
        rep.check(good, "write|nw-is-end", "K6 provenance", "the value stored into *nw is the saturating sum `end`", site=w.site())
        # R5 the sum is a running total: old *nw (unclamped, straight from the field) + src.len()
        a0 = w.origins(sat[0].args[0], through_calls="*")
        a1 = w.origins(sat[0].args[1], through_calls="*")
        calls0 = {t for t in a0 if t.startswith("call:")}
        ok = "field:nw" in a0 and not calls0 and "field:dst" not in a0 and "call:len" in a1 and "field:nw" not in a1 and "field:dst" not in a1 \
            and ("call:as_bytes" in a1 or "arg:2" in a1)
        rep.check(ok, "write|nw-running-total", "K6 provenance",
                  "`end` = (*nw, read straight from the field) saturating_add (length of the fragment): nw keeps counting past the end of the buffer",
                  "CStrWriter::write no longer accumulates `*nw + src.len()` from the unmodified counter (left operand from %s, right operand from %s): "
                  "after an overflow the reported size forgets fragments already counted" % (sorted(a0), sorted(a1)), sat[0].site())
