"""C19 Hello notifications never suppress a needed sync.

Decided (structural):
 R1 K2  should_sync_on_hello returns Ok(false) only on the `hello_head(graph) == head` edge, or as
        `get_location(head).is_none()` evaluated on the committed graph; it returns Ok(true) on the
        NoSuchStorage arm (a replica lacking the graph always syncs).
 R2 K5  same head set => same hello head: hello_head = synthetic_head(get_heads()), and
        synthetic_head pairs heads exactly as collapse_heads does (shared fold, MergeIds::new,
        Policy::merge).
 R3 K6  VmPolicy::merge derives the merge id from merge_cmd_id(left.id, right.id) with the ordered
        pair, so the advertised address is a function of the head set alone.
Not decided: that possession of the advertised command implies possession of the peer's whole
graph (ancestry closure; value-level)."""
from rules.core import rt, pat
from rules.core.facts import Operand, PASS_THROUGH

CRATES = ["aranya_runtime"]
THOROUGH_CONFIGS = ["lowmem"]   # thorough tier: the same rules on the low-mem-usage build
C = "aranya_runtime::client::ClientState::"


def run(F, rep, tier):
    rep.explanation = __doc__
    f = F.fn(C + "should_sync_on_hello")
    oks = pat.ok_returns(f)
    hh = pat.one(rep, [c for c in f.calls if c.is_(C + "hello_head")], "hello_head call", f)
    gl = pat.one(rep, pat.trait_calls(f, "storage::Storage", "get_location"), "get_location", f)
    if not hh or not gl:
        return
    eqs = [c for c in f.cmp_switches() if ("call:hello_head" in f.origins(c["a"], through_calls=PASS_THROUGH) and "argname:head" in f.origins(c["b"], through_calls=()))
           or ("call:hello_head" in f.origins(c["b"], through_calls=PASS_THROUGH) and "argname:head" in f.origins(c["a"], through_calls=()))]
    eq = pat.one(rep, eqs, "hello_head == head comparison", f)
    nss = [x for x in f.discr_switches("StorageError") if "NoSuchStorage" in x[1]]
    # Each successful return is classified by what it answers and on which edge it sits. The answer may be a
    # constant on an edge of a test, or computed; the shapes `x.is_none()` and `match x { Some(_) => false, None => true }`
    # are the same decision.
    gle = f.outcome_edges(gl)
    some_t = gle["Some"][1] if "Some" in gle else None
    none_t = gle["None"][1] if "None" in gle else None
    n_graph = 0
    for s in oks:
        o = s.operands()[0]
        if o.const is not None:
            if o.val == 0:
                on_same = eq is not None and f.dominates(eq["eq"], s.bb)
                on_present = some_t is not None and f.dominates(some_t, s.bb)
                n_graph += 1 if on_present else 0
                rep.check(on_same or on_present, "should_sync|false-only-when-same-head", "K2 guarded-by",
                          "Ok(false) is returned only on the `hello_head == head` edge or where get_location(head) found the command",
                          "should_sync_on_hello returns false although the advertised head is neither our own hello head nor a command found in the committed graph", f.site(s.line))
            else:
                on_missing = bool(nss) and f.dominates(nss[0][1]["NoSuchStorage"], s.bb)
                on_absent = none_t is not None and f.dominates(none_t, s.bb)
                n_graph += 1 if on_absent else 0
                rep.check(on_missing or on_absent, "should_sync|true-when-graph-missing", "K2 guarded-by",
                          "Ok(true) on the NoSuchStorage arm or where get_location(head) found nothing", site=f.site(s.line))
        else:
            org = f.origins(o, through_calls=PASS_THROUGH + ("Option::is_none",))
            ok = "call:is_none" in org and "call:get_location" in org and "call:is_some" not in org and "call:not" not in org
            n_graph += 1 if ok else 0
            rep.check(ok, "should_sync|else-location-absent", "K6 provenance",
                      "otherwise the answer is storage.get_location(head).is_none() (sync unless the command is already committed here)",
                      "should_sync_on_hello's fallback answer is not `get_location(head).is_none()`", f.site(s.line))
    rep.check(n_graph >= 1 and "argname:head" in f.origins(gl.args[1], through_calls=()), "should_sync|consults-committed-graph", "K6 provenance",
              "when the graph exists and the heads differ, the answer depends on get_location(head)",
              "should_sync_on_hello no longer decides by looking the advertised head up in the committed graph", f.site())
    rep.check(bool(nss), "should_sync|missing-graph-arm", "K2 guarded-by", "get_storage's NoSuchStorage error is matched explicitly", site=f.site())
    # R2
    h = F.fn(C + "hello_head")
    sh = [c for c in h.calls if c.is_(rt.TX + "synthetic_head")]
    ok = len(sh) == 1 and "call:get_heads" in h.origins(sh[0].args[2], through_calls=PASS_THROUGH)
    rep.check(ok, "hello_head|synthetic-of-committed-heads", "K6 provenance", "hello_head = synthetic_head(storage, policy_store, storage.get_heads())", site=h.site())
    # ... on every path: each successful return is this call's synthetic_head result, never remembered state
    stale = []
    for st in pat.ok_returns(h):
        og = set()
        for o in st.operands():
            og |= h.origins(o, through_calls=PASS_THROUGH)
        if "call:synthetic_head" not in og:
            stale.append("%s:%d" % (h.file, st.line))
    # a tail call `synthetic_head(..)` (the Result returned unchanged) has no Ok aggregate at all
    rep.check(not stale, "hello_head|computed-on-every-path", "K6 provenance",
              "every successful return of hello_head is the synthetic_head computed from get_heads() in the same call",
              "hello_head can return an address that was not computed from the current committed heads in this call (%s): a remembered value cannot be shown to match the "
              "current head set (e.g. after the graph was removed and re-created), so two replicas with the same heads may advertise different hello heads and a needed sync can be suppressed" % ", ".join(stale),
              h.site())
    rt.rule_fold_siblings(F, rep)
    rt.rule_headset(F, rep)
    rt.rule_vm_merge(F, rep)
    # single head: advertises the head's own address
    s = F.fn(rt.TX + "synthetic_head")
    cs = [c for c in s.cmp_switches() if "call:len" in s.origins(c["a"]) or "call:len" in s.origins(c["b"])]
    rep.check(bool(cs), "synthetic_head|single-head-fast-path", "K2 guarded-by", "a one-element head set advertises that head's address", site=s.site())
