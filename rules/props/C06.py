"""C06 Commands rejected at origin leave no trace.

Decided (structural, every command / every rule outcome):
 R1 K1  Transaction::add_single: perspective.checkpoint() dominates policy.call_rule().
 R2 K2  on the Err edge of call_rule both perspective.revert(checkpoint) and sink.rollback()
        occur before the return and neither add_command nor sink.commit is reachable; on the
        Ok edge add_command succeeds before sink.commit. Transaction::init: rollback on Err,
        new_storage and sink.commit only on the Ok edge.
 R3 K1  LinearPerspective::revert: every non-early Ok exit passed commands.truncate,
        facts.clear, current_updates.clear and the replay of the kept commands.
 R4 K2  its early Ok is guarded by `index == commands.len()` AND `current_updates.is_empty()`.
 R5 K1  every QueryMut write on LinearPerspective pushes onto current_updates (R4's belief).
 R6 K3  Transaction::locate consults only storage.get_location / get_location_from: it never
        reads self.perspective (so a rejected command cannot be found as a parent).
 R7 K1  install/fill pairing: a Transaction method that installs a perspective
        (self.perspective = Some/insert) must not return Err while that perspective can be
        empty, because flush/add_merge/get_perspective write self.perspective out
        unconditionally and Storage::write rejects an empty perspective.
 R8 K2  a command refused by the store after its rule ran (perspective.add_command's error) is undone
        like a policy rejection: revert(checkpoint) and sink.rollback() on every path to the return.
Not decided: interaction of rejections with later merges over all positions (value-level)."""
from rules.core import pat
from rules.core.facts import Operand

CRATES = ["aranya_runtime"]
THOROUGH_CONFIGS = ["lowmem"]   # thorough tier: the same rules on the low-mem-usage build
T = "aranya_runtime::client::transaction::Transaction::"


def run(F, rep, tier):
    rep.explanation = __doc__
    f = F.fn(T + "add_single")
    cr = pat.one(rep, pat.trait_calls(f, "policy::Policy", "call_rule"), "call_rule", f)
    cp = pat.one(rep, pat.trait_calls(f, "storage::Revertable", "checkpoint"), "checkpoint", f)
    if not cr or not cp:
        return
    rep.check(f.dominates(cp.bb, cr.bb) and cp.bb != cr.bb, "add_single|checkpoint-before-rule", "K1 must-pass-through",
              "perspective.checkpoint() dominates policy.call_rule()", site=cr.site())
    # the checkpoint handed to revert is that checkpoint
    oe = f.outcome_edges(cr)
    if "Err" not in oe:
        rep.anchor_missing("add_single: call_rule result not matched on Err")
        return
    err_t = oe["Err"][1]
    ok_t = oe.get("Ok", (None, None))[1]
    if ok_t is None:
        # `if let Err(e)`: otherwise edge
        sw = f.switch_on(oe["Err"][0])
        ok_t = sw[2]
    rev = pat.trait_calls(f, "storage::Revertable", "revert")
    rb = pat.trait_calls(f, "policy::Sink", "rollback")
    cm = pat.trait_calls(f, "policy::Sink", "commit")
    ac = pat.trait_calls(f, "storage::Perspective", "add_command")
    rep.floor("add_single revert/rollback/commit/add_command sites", min(len(rev), len(rb), len(cm), len(ac)), 1)
    # Err edge: every path to a return that is not an error exit of revert itself passes revert and rollback
    reg = f.reachable(err_t)
    rev_in = [c for c in rev if c.bb in reg]
    rb_in = [c for c in rb if c.bb in reg]
    rep.check(bool(rev_in) and pat.must_pass(f, err_t, [c.bb for c in rev_in]), "add_single|err-edge-revert", "K2 err-edge action",
              "every path from the Err edge of call_rule to a return passes perspective.revert(..)",
              "add_single: a rejected command can return without reverting the perspective", cr.site())
    # rollback: on all paths except the `?` failure of revert itself
    rev_err = {pat.err_edge(f, c) for c in rev_in if pat.err_edge(f, c)}
    cut = {e for e in rev_err}
    reach_wo = f.reachable(err_t, cut_edges=cut, cut_blocks={c.bb for c in rb_in})
    rep.check(bool(rb_in) and not (reach_wo & set(f.returns())), "add_single|err-edge-rollback", "K2 err-edge action",
              "every path from the Err edge to a return passes sink.rollback() (except revert's own failure)",
              "add_single: a rejected command can return without sink.rollback()", cr.site())
    if rev_in:
        srcs = f.backward_sources(rev_in[0].args[1].place.local)[1]
        rep.check(any(k == "call" and c is cp for k, c in srcs), "add_single|revert-uses-checkpoint", "K6 provenance",
                  "revert is given the checkpoint taken before the rule ran", site=rev_in[0].site())
    bad = pat.unreachable_from(f, err_t, ac + cm)
    rep.check(not bad, "add_single|err-edge-no-store", "K2 err-edge action",
              "neither perspective.add_command nor sink.commit is reachable from the Err edge of call_rule",
              "add_single: add_command/sink.commit reachable after the rule rejected the command", cr.site())
    # Ok edge: add_command Ok dominates commit
    for c in cm:
        aok = [pat.ok_edge(f, a) for a in ac if pat.ok_edge(f, a)]
        rep.check(bool(aok) and any(f.dominates(e[1], c.bb) for e in aok) and c.bb in f.reachable(ok_t), "add_single|commit-after-store",
                  "K1 must-pass-through", "sink.commit() only after add_command succeeded on the Ok edge", site=c.site())

    # init
    g = F.fn(T + "init")
    cr2 = pat.one(rep, pat.trait_calls(g, "policy::Policy", "call_rule"), "call_rule", g)
    if cr2:
        oe = g.outcome_edges(cr2)
        err_t2 = oe["Err"][1]
        rb2 = pat.trait_calls(g, "policy::Sink", "rollback")
        cm2 = pat.trait_calls(g, "policy::Sink", "commit")
        ns = pat.trait_calls(g, "storage::StorageProvider", "new_storage")
        ac2 = pat.trait_calls(g, "storage::Perspective", "add_command")
        rep.check(bool(rb2) and pat.must_pass(g, err_t2, [c.bb for c in rb2]) and not pat.unreachable_from(g, err_t2, cm2 + ns + ac2),
                  "init|err-edge", "K2 err-edge action",
                  "init: rule failure rolls the sink back; new_storage/add_command/sink.commit unreachable from it", site=cr2.site())
        nsok = [pat.ok_edge(g, c) for c in ns if pat.ok_edge(g, c)]
        rep.check(bool(cm2) and bool(nsok) and all(any(g.dominates(e[1], c.bb) for e in nsok) for c in cm2), "init|commit-after-new_storage",
                  "K1 must-pass-through", "init: sink.commit() only after new_storage succeeded", site=g.site())

    # R3/R4 LinearPerspective::revert
    rv = [x for x in F.fns if x.name == "revert" and x.trait and x.trait.endswith("storage::Revertable") and x.self_adt and x.self_adt.endswith("linear::LinearPerspective")]
    rv = pat.one(rep, rv, "LinearPerspective::revert impl", f)
    if rv:
        cs = rv.cmp_switches()
        idx = [c for c in cs if c["op"] in ("Eq", "Ne") and (rv.derives_from_field(c["a"], "index") or rv.derives_from_field(c["b"], "index"))]
        ie = [c for c in rv.calls if c.name == "is_empty" and rv.derives_from_field(c.args[0], "current_updates")]
        oks = pat.ok_returns(rv)
        trunc = [c for c in rv.calls if c.name == "truncate"]
        clears = [c for c in rv.calls if c.name == "clear"]
        apply_ = [c for c in rv.calls if c.name == "apply_updates"]
        early = [s for s in oks if not any(rv.dominates(t.bb, s.bb) for t in trunc)]
        late = [s for s in oks if s not in early]
        ok4 = False
        if len(idx) == 1 and len(ie) == 1 and early:
            oe = rv.outcome_edges(ie[0])
            ok4 = "true" in oe and all(rv.dominates(idx[0]["eq"], s.bb) and rv.dominates(oe["true"][1], s.bb) for s in early)
        rep.check(ok4, "revert|early-return-guard", "K2 guarded-by",
                  "revert's early Ok is dominated by `checkpoint.index == commands.len()` and `current_updates.is_empty()`",
                  "LinearPerspective::revert returns early without checking both the command count and pending fact writes", rv.site())
        ok3 = bool(late) and len(trunc) >= 1 and len(clears) >= 2 and bool(apply_)
        if ok3:
            for s in late:
                ok3 = ok3 and all(rv.dominates(c.bb, s.bb) for c in trunc + clears)
            # clears cover facts and current_updates
            flds = set()
            for c in clears:
                for fld in ("facts", "current_updates"):
                    if rv.derives_from_field(c.args[0], fld):
                        flds.add(fld)
            ok3 = ok3 and flds == {"facts", "current_updates"} and any(rv.derives_from_field(c.args[0], "commands") for c in trunc)
        rep.check(ok3, "revert|rebuild", "K1 must-pass-through",
                  "the non-early Ok exit passed commands.truncate, facts.clear, current_updates.clear and replays apply_updates",
                  site=rv.site())
    # R5 QueryMut writes push onto current_updates
    n = 0
    for x in F.fns:
        if x.trait and x.trait.endswith("storage::QueryMut") and x.self_adt and x.self_adt.endswith("linear::LinearPerspective") and x.name in ("insert", "delete"):
            n += 1
            pushes = [c for c in x.calls if c.name == "push" and x.derives_from_field(c.args[0], "current_updates")]
            oks = pat.ok_returns(x)
            rep.check(bool(pushes) and all(any(x.dominates(p.bb, s.bb) for p in pushes) for s in oks), "QueryMut::%s|logs-update" % x.name,
                      "K1 must-pass-through", "LinearPerspective::%s pushes onto current_updates before returning Ok" % x.name, site=x.site())
    rep.floor("LinearPerspective QueryMut writers", n, 2)

    # R6 locate
    loc = F.fn(T + "locate")
    reads_p = pat.field_of_self_read(loc, "perspective")
    names = {c.name for c in loc.calls if c.trait and c.trait.endswith("storage::Storage")}
    rep.check(not reads_p and names <= {"get_location", "get_location_from"} and bool(names), "locate|committed-only", "K3 who-may-read",
              "Transaction::locate searches only storage.get_location / get_location_from(self.heads) and never self.perspective",
              site=loc.site())

    # R7 install/fill pairing
    check_install_fill(F, rep)
    refused_after_rule(F, rep)


def check_install_fill(F, rep):
    """A caller of get_perspective may have installed a fresh, empty perspective. On the
    rejection path (Err edge of call_rule, revert succeeded) every return must pass either a
    store that un-installs self.perspective or the `perspective.includes(parent) == true` edge
    (the perspective already held commands). Internal-error exits (`?` on get_policy, revert,
    add_command) are exempt: they are storage/bug errors, not policy rejections."""
    n = 0
    gp = F.fn(T + "get_perspective")
    ins = [c for c in gp.calls if c.is_("Option::insert") and gp.derives_from_field(c.args[0], "perspective")]
    fresh = [c for c in gp.calls if c.name == "get_linear_perspective"]
    rep.floor("get_perspective installs a fresh perspective", min(len(ins), len(fresh)), 1)
    for f, c in F.callers_of(T + "get_perspective"):
        n += 1
        crs = pat.trait_calls(f, "policy::Policy", "call_rule")
        if len(crs) != 1:
            rep.anchor_missing("%s: call_rule not found" % f.path)
            continue
        oe = f.outcome_edges(crs[0])
        err_t = oe["Err"][1]
        rev = [x for x in pat.trait_calls(f, "storage::Revertable", "revert") if x.bb in f.reachable(err_t)]
        cut = {pat.err_edge(f, x) for x in rev if pat.err_edge(f, x)}
        uninstall = {s.bb for s in f.field_stores("perspective")}
        inc = [x for x in pat.trait_calls(f, "storage::Perspective", "includes") if x.bb in f.reachable(err_t)]
        keep = set()
        for x in inc:
            e = f.outcome_edges(x, passthrough=("Not::not",))
            if "true" in e:
                keep.add(e["true"][1])
            else:
                # `!includes(..)`: look for a Not on the result
                for st in f.stmts():
                    if st.rv_kind() == "un" and st.rv[1] == "Not" and Operand(st.rv[2]).place is not None and Operand(st.rv[2]).place.local == x.dest.local:
                        for b in range(f.nblocks):
                            sw = f.switch_on(b)
                            if sw and sw[0].place is not None and sw[0].place.local == st.place.local:
                                keep.add(sw[1].get(0))  # !includes == false  <=> includes == true
        r = f.reachable(err_t, cut_edges=cut, cut_blocks=uninstall | keep)
        leak = [b for b in f.returns() if b in r]
        rep.check(not leak and bool(uninstall | keep), "%s|empty-perspective-on-err-exit" % short(f.path), "K1 install/fill pairing",
                  "on the rejection path the freshly installed perspective is either un-installed (self.perspective = None) or known to hold commands (includes(parent))",
                  "%s: a rejected command returns with the freshly installed, empty perspective still in self.perspective; the next "
                  "flush/commit calls storage.write(empty) -> StorageError::EmptyPerspective and earlier accepted commands are lost" % short(f.path),
                  crs[0].site())
        # ... and conversely the in-flight perspective is dropped only when it is known to hold nothing: the test
        # must be about the perspective's own head (`parent`), never about the rejected command (which revert
        # has just removed, so it is never included)
        un_err = [s for s in f.field_stores("perspective") if s.bb in f.reachable(err_t)]
        if un_err:
            okd = bool(inc)
            for x in inc:
                og = f.origins(x.args[1], through_calls=())
                okd = okd and ("argname:parent" in og) and ("argname:command" not in og) and ("call:id" not in og)
            rep.check(okd, "%s|drop-tests-own-head" % short(f.path), "K6 provenance",
                      "the emptiness test that licenses dropping the in-flight perspective asks whether it includes `parent` (its own head)",
                      "%s: the in-flight perspective is dropped on a rejection after testing something other than its own head `parent` (the rejected command is never included "
                      "after revert): accepted commands that live only in the perspective are discarded with it and their tips are lost from the committed head set" % short(f.path),
                      inc[0].site() if inc else crs[0].site())
            # every un-install on this path sits on the includes == false edge
            nokeep = set()
            for x in inc:
                for st in f.stmts():
                    if st.rv_kind() == "un" and st.rv[1] == "Not" and Operand(st.rv[2]).place is not None and Operand(st.rv[2]).place.local == x.dest.local:
                        for b in range(f.nblocks):
                            sw = f.switch_on(b)
                            if sw and sw[0].place is not None and sw[0].place.local == st.place.local:
                                nokeep.add(sw[2])
                e = f.outcome_edges(x, passthrough=("Not::not",))
                if "false" in e:
                    nokeep.add(e["false"][1])
            rep.check(all(any(t is not None and f.dominates(t, s.bb) for t in nokeep) for s in un_err), "%s|drop-only-when-empty" % short(f.path), "K2 guarded-by",
                      "self.perspective is cleared on the rejection path only on the `includes(parent) == false` edge", site=crs[0].site())
        # the parent tip is removed only after a child was added (Ok path), not when the perspective is created
        rem = [x for x in f.calls if x.name == "remove" and f.derives_from_field(x.args[0], "heads")]
        acs = pat.trait_calls(f, "storage::Perspective", "add_command")
        ac_ok = [pat.ok_edge(f, a)[1] for a in acs if pat.ok_edge(f, a)]
        rep.check(bool(rem) and all(any(f.dominates(t, x.bb) for t in ac_ok) for x in rem) and not pat.unreachable_from(f, err_t, rem),
                  "%s|tip-removed-after-child-added" % short(f.path), "K1 must-pass-through",
                  "the parent is removed from self.heads only after add_command succeeded (never on the rejection path)", site=f.site())
    rep.floor("callers of get_perspective", n, 1)
    gprem = [x for x in gp.calls if x.name == "remove" and gp.derives_from_field(x.args[0], "heads")]
    rep.check(not gprem, "get_perspective|no-tip-removal", "K3 who-may-write",
              "get_perspective does not remove the parent tip when it creates an (still empty) perspective", site=gp.site())
    # add_merge: add_command Ok dominates the install of the merge perspective
    am = F.fn(T + "add_merge")
    stores = [s for s in am.field_stores("perspective") if s.rv_kind() in ("agg", "use")]
    acs = pat.trait_calls(am, "storage::Perspective", "add_command")
    ac_ok = [pat.ok_edge(am, a)[1] for a in acs if pat.ok_edge(am, a)]
    rep.check(bool(stores) and bool(ac_ok) and all(any(am.dominates(t, s.bb) for t in ac_ok) for s in stores), "add_merge|filled-before-install",
              "K1 install/fill pairing", "add_merge installs the merge perspective only after add_command succeeded on it", site=am.site())


def short(p):
    return p.split("::")[-2] + "::" + p.split("::")[-1]


def refused_after_rule(F, rep):
    """R8: between the policy call and sink.commit() a command can still be refused by the store
    (perspective.add_command checks the parent address, max_cut included, which the signature does not cover).
    By then its rule has run: every such failing exit must revert the perspective to the checkpoint and roll
    the sink back, exactly like a policy rejection - otherwise its fact writes are carried into the next
    accepted command."""
    f = F.fn(T + "add_single")
    crs = pat.trait_calls(f, "policy::Policy", "call_rule")
    acs = pat.trait_calls(f, "storage::Perspective", "add_command")
    cms = pat.trait_calls(f, "policy::Sink", "commit")
    if len(crs) != 1 or not acs or not cms:
        rep.anchor_missing("add_single: call_rule / add_command / sink.commit")
        return
    rev = pat.trait_calls(f, "storage::Revertable", "revert")
    rbs = pat.trait_calls(f, "policy::Sink", "rollback")
    for ac in acs:
        oe = f.outcome_edges(ac)
        e = oe.get("Err") or oe.get("Break")
        if e is None:
            # the result is not inspected at all (e.g. ignored): then it cannot refuse
            continue
        # cut revert's own failure exit
        cut = {pat.err_edge(f, x) for x in rev if pat.err_edge(f, x)}
        r1 = f.reachable(e[1], cut_edges=cut, cut_blocks={x.bb for x in rev})
        r2 = f.reachable(e[1], cut_edges=cut, cut_blocks={x.bb for x in rbs})
        ok = bool(rev) and bool(rbs) and not (r1 & set(f.returns())) and not (r2 & set(f.returns()))
        rep.check(ok, "Transaction::add_single|refused-by-store-is-undone", "K2 err-edge action",
                  "when perspective.add_command refuses the command after its rule ran, every path to the return passes perspective.revert(checkpoint) and sink.rollback()",
                  "Transaction::add_single returns the error of perspective.add_command (e.g. PerspectiveHeadMismatch for a parent address with the right id and a wrong max_cut) without "
                  "reverting the perspective or rolling the sink back: the refused command's fact writes stay in the in-flight perspective and are committed with the next accepted command",
                  ac.site())
