"""C04 Lazy merges: queries and actions see the same state.

Decided (structural):
 R1 K6  the sink handed to evaluate_braid inside collapse_heads is a local NullSink: collapsing
        emits no effects to the caller's sink (collapse_heads has no sink parameter at all).
 R2 K5  the hello address and the materialised collapse use the same fold and the same merge
        constructor (fold_merge_pairs, MergeIds::new, Policy::merge); collapse_heads writes the
        command returned by that Policy::merge.
 R3 K1  Session::new seeds base_facts from Storage::fact_cache (the braided state across all
        heads), not from a single head.
 R4 K6  ClientState::action runs on get_linear_perspective(collapse_heads(get_heads().clone())).
 R5 K6  Transaction::commit stores as fact cache either the single head's facts() or the index
        returned by evaluate_braid over exactly the committed head locations.
 R6 K6  last_common_ancestor carries its running result through the fold over all heads.
 R7 K2  Storage::commit_heads (file-backed): the in-memory head set that get_heads serves is replaced
        only on the success edge of the writer's commit (which is what moves the fact cache): a failed
        commit leaves head set and fact cache at the same, previous commit.
Not decided: equality of the fact cache with the facts at the collapsed head (value-level)."""
from rules.core import pat, rt
from rules.core.facts import Operand, PASS_THROUGH

CRATES = ["aranya_runtime"]
THOROUGH_CONFIGS = ["lowmem"]   # thorough tier: the same rules on the low-mem-usage build


def run(F, rep, tier):
    rep.explanation = __doc__
    ch = F.fn(rt.TX + "collapse_heads")
    sinky = [l for l in ch.locals[1:ch.nargs + 1] if "Sink" in l["ty"]]
    rep.check(not sinky, "collapse_heads|no-sink-parameter", "K10 type fact", "collapse_heads takes no effect sink", site=ch.site())
    fold = [c for c in ch.calls if c.is_(rt.TX + "fold_merge_pairs")]
    ok = False
    ok2 = False
    if fold:
        for cl in ch.closures_in_args(fold[0], F):
            eb = [c for c in cl.calls if c.is_(rt.TX + "evaluate_braid")]
            if eb:
                o = cl.origins(eb[0].args[2], through_calls=())
                ty = cl.local_ty(eb[0].args[2].place.local)
                ok = "upvar:null" in o or "NullSink" in ty
                # what the upvar is: a NullSink local in collapse_heads
                nulls = [i for i, l in enumerate(ch.locals) if l.get("name") == "null" and "NullSink" in l["ty"]]
                ok = ok and bool(nulls)
            mg = pat.trait_calls(cl, "policy::Policy", "merge")
            ac = pat.trait_calls(cl, "storage::Perspective", "add_command")
            wr = pat.trait_calls(cl, "storage::Storage", "write")
            if mg and ac and wr:
                src = cl.backward_sources(ac[0].args[1].place.local, through_calls=PASS_THROUGH)[1]
                ok2 = any(k == "call" and c is mg[0] for k, c in src) and cl.dominates(ac[0].bb, wr[0].bb)
    rep.check(ok, "collapse_heads|null-sink", "K6 provenance",
              "evaluate_braid inside collapse_heads receives the local NullSink",
              "collapse_heads braids with a real sink: collapsing heads would re-emit effects", ch.site())
    rep.check(ok2, "collapse_heads|writes-the-deterministic-merge", "K6 provenance",
              "the merge segment written holds exactly the command returned by Policy::merge(MergeIds)", site=ch.site())
    rt.rule_fold_siblings(F, rep)
    rt.rule_vm_merge(F, rep)
    # R3
    new = F.fn("aranya_runtime::client::session::Session::new")
    agg = [s for s in new.stmts() if s.rv_kind() == "agg" and s.rv[1].get("adt", "").endswith("session::Session")]
    ok = False
    if agg:
        flds = agg[0].rv[1]["fields"]
        o = new.origins(agg[0].operands()[flds.index("base_facts")], through_calls=PASS_THROUGH)
        ok = "call:fact_cache" in o and "call:get_segment" not in o and "call:facts" not in o
    rep.check(ok, "Session::new|base-facts-from-fact-cache", "K6 provenance",
              "Session.base_facts is storage.fact_cache() (all heads), not one head's facts",
              "Session::new seeds its base facts from something other than the committed fact cache", new.site())
    # R4
    act = F.fn("aranya_runtime::client::ClientState::action")
    ca = pat.trait_calls(act, "policy::Policy", "call_action")
    ok = False
    if ca:
        names = {c.name for k, c in act.backward_sources(ca[0].args[2].place.local, through_calls="*", max_depth=80)[1] if k == "call"}
        ok = {"get_linear_perspective", "collapse_heads", "get_heads"} <= names
    rep.check(ok, "action|perspective-at-collapsed-head", "K6 provenance",
              "the action's perspective is get_linear_perspective(collapse_heads(get_heads().clone()))", site=act.site())
    # R5
    cm = F.fn(rt.TX + "Transaction::commit")
    chd = [c for c in cm.calls if c.name == "commit_heads"]
    ok = False
    if chd:
        o = cm.origins(chd[0].args[2], through_calls=PASS_THROUGH)
        eb = [c for c in cm.calls if c.is_(rt.TX + "evaluate_braid")]
        ok = "call:facts" in o and "call:evaluate_braid" in o and len(eb) == 1
        if ok:
            ho = cm.origins(eb[0].args[1], through_calls="*")
            hs = cm.origins(chd[0].args[1], through_calls="*")
            ok = ("call:location" in ho or "call:collect" in ho) and ("call:push" in hs or "call:default" in hs)
    rep.check(ok, "commit|fact-cache-is-braid-of-committed-heads", "K6 provenance",
              "the committed fact cache is head.facts() (one head) or evaluate_braid over the committed heads' locations", site=cm.site())
    # single-head shortcut guarded by len == 1
    cs = [c for c in cm.cmp_switches() if ("call:len" in cm.origins(c["a"]) or "call:len" in cm.origins(c["b"])) and (c["a"].val == 1 or c["b"].val == 1)]
    facts_c = [c for c in cm.calls if c.name == "facts"]
    rep.check(len(cs) >= 1 and bool(facts_c) and all(cm.dominates(cs[0]["eq"], c.bb) for c in facts_c), "commit|single-head-shortcut-guard", "K2 guarded-by",
              "the head-facts shortcut is taken only when the committed set has exactly one head", site=cm.site())
    lca_fold_rule(F, rep)
    commit_heads_rule(F, rep)


def commit_heads_rule(F, rep):
    """R7: get_heads() (read by action/collapse_heads and hello_head) serves LinearStorage.cached_heads, while
    fact_cache() (read by queries and sessions) serves what the last *successful* writer commit recorded. The two
    describe the same commit only if commit_heads replaces cached_heads on the success edge of Write::commit."""
    fs = [f for f in F.fns if f.name == "commit_heads" and f.trait and f.trait.endswith("storage::Storage") and not f.derived]
    if not fs:
        rep.anchor_missing("no implementation of Storage::commit_heads found")
    for f in fs:
        short = f.path.split(" as ")[0].split("::")[-1].strip("<>")
        wc = [c for c in f.calls if c.name == "commit" and c.trait and c.trait.endswith("io::Write")]
        stores = [s for s in f.stmts() if s.place is not None and s.place.local == 1 and s.place.proj and s.place.proj[-1][0] == "f"]
        ok = len(wc) == 1 and bool(f.field_stores("cached_heads"))
        if ok:
            e = pat.ok_edge(f, wc[0])
            ok = e is not None and all(pat.dominated_by_edge(f, e, s.bb) for s in stores)
        rep.check(ok, "%s::commit_heads|heads-replaced-only-after-durable-commit" % short, "K2 guarded-by",
                  "%s::commit_heads stores self.cached_heads (and nothing else of self) only on the Ok edge of Write::commit" % short,
                  "%s::commit_heads changes the head set served by get_heads() before (or without) the writer's commit having succeeded: after a failed commit "
                  "actions and the hello head use the new heads while queries and sessions still read the previous commit's fact cache" % short, f.site())


def lca_fold_rule(F, rep):
    """R6: the N-way commit braid and the pairwise collapse agree only if the braid's cutoff is a common
    ancestor of *all* heads: last_common_ancestor must carry its running result through the fold
    (lca := lca_pair(lca, h) for every head), not recompute it from neighbouring heads."""
    B = "aranya_runtime::client::braiding::"
    f = F.fn(B + "last_common_ancestor")
    carried = False
    n_calls = 0
    # (a) fold / try_fold with the accumulator as one operand of lca_pair
    for c in f.calls:
        if c.is_("Iterator::try_fold", "Iterator::fold"):
            for cl in f.closures_in_args(c, F):
                for x in cl.calls:
                    if x.is_(B + "lca_pair"):
                        n_calls += 1
                        ops = [cl.origins(a, through_calls=()) for a in x.args[1:]]
                        if any("arg:2" in o for o in ops) and any("arg:3" in o for o in ops):
                            carried = True
    # (b) explicit loop with a loop-carried accumulator
    for x in f.calls:
        if x.is_(B + "lca_pair"):
            n_calls += 1
            for a in x.args[1:]:
                if a.place is not None and x.dest is not None:
                    srcs = f.backward_sources(a.place.local, through_calls=PASS_THROUGH)[1]
                    if any(k == "call" and s is x for k, s in srcs):
                        carried = True
    rep.check(n_calls >= 1 and carried, "last_common_ancestor|accumulator-carried", "K6 provenance",
              "last_common_ancestor folds lca_pair over all heads with the running result as one operand",
              "last_common_ancestor does not carry its running result through the fold over the heads (lca_pair's operands do not include the previous result): with three or "
              "more heads the braid's cutoff is only the ancestor of some of them, commands below it are dropped from the N-way braid and the fact cache disagrees with what an action sees", f.site())
