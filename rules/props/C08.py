"""C08 Transactions are isolated and history only grows.

Decided (structural):
 R1 K2  Transaction::commit returns Err(ConcurrentTransaction) on the inequality edge of
        `original_heads_offset != storage.heads_offset()`, and every storage-mutating call in it
        (flush -> write, evaluate_braid, commit_heads) is dominated by the equality edge.
 R2 K3  original_heads_offset is written only (a) in add_commands inside the
        `original_heads_offset.is_none()` region, from storage.heads_offset(), in the same region
        that seeds self.heads from get_heads(); (b) by the take() in commit; (c) None in new.
        No other code obtains a mutable reference to it (so a later add cannot refresh the stamp).
 R3 K6  the stamp changes on every commit: the libc Writer::commit stores into root.heads the
        offset returned by the append of the new head set, heads_offset() reads root.heads, and
        LinearStorage::commit_heads reaches Writer::commit on every Ok path.
 R4 K3  commit takes `self` by value (the transaction is consumed).
 R5 K1+K6 (shared with C06-R7 / C09-R4) a committed head leaves the transaction's tips only when a child of it
        was accepted: tip removal sits on the accepting path of add_single / add_merge, and a perspective
        opened for a command that is then refused is un-installed with its parent still a tip - otherwise a
        later commit writes a head set that no longer covers a committed command.
Not decided: interleavings beyond this guard; "the graph is the previous graph plus the accepted
commands" (value-level)."""
from rules.core import pat
from rules.core.facts import Operand, PASS_THROUGH

CRATES = ["aranya_runtime"]
THOROUGH_CONFIGS = ["lowmem"]   # thorough tier: the same rules on the low-mem-usage build
T = "aranya_runtime::client::transaction::Transaction::"
FIELD = "original_heads_offset"


def mut_refs(f, field):
    """statements taking `&mut <place with .field>`"""
    return [s for s in f.stmts() if s.rv_kind() == "ref" and s.rv[1] == "mut" and field in __import__("rules.core.facts", fromlist=["Place"]).Place(s.rv[2]).fields()]


def run(F, rep, tier):
    rep.explanation = __doc__
    cm = F.fn(T + "commit")
    cs = cm.cmp_switches()
    ho = [c for c in cm.calls if c.name == "heads_offset"]
    stamp = []
    for c in cs:
        for side in (c["a"], c["b"]):
            if side.place is not None:
                srcs = cm.backward_sources(side.place.local, through_calls=PASS_THROUGH + ("Option::take",))[1]
                if any(k == "call" and x.name == "heads_offset" for k, x in srcs):
                    stamp.append(c)
                    break
    stamp = pat.one(rep, stamp, "stamp comparison", cm)
    if not stamp:
        return
    # the other side derives from self.original_heads_offset
    rep.check(cm.derives_from_field(stamp["a"], FIELD) or cm.derives_from_field(stamp["b"], FIELD), "commit|stamp-compare-operands", "K6 provenance",
              "the comparison is between self.original_heads_offset and storage.heads_offset()", site=cm.site())
    ne_reg = cm.reachable(stamp["ne"])
    ct = pat.err_aggs(cm, "ConcurrentTransaction")
    rep.check(bool(ct) and all(s.bb in ne_reg and not cm.dominates(stamp["eq"], s.bb) for s in ct), "commit|concurrent-error-edge", "K2 guarded-by",
              "Err(ConcurrentTransaction) is produced on the inequality edge", site=cm.site())
    muts = [c for c in cm.calls if c.is_(T + "flush") or c.name in ("evaluate_braid", "commit_heads", "write", "write_facts")]
    rep.floor("commit: storage-mutating calls", len(muts), 3)
    for c in muts:
        rep.check(cm.dominates(stamp["eq"], c.bb), "commit|%s-after-stamp-check" % c.name, "K2 guarded-by",
                  "%s is dominated by the stamp-equality edge" % c.name,
                  "Transaction::commit calls %s before/without the concurrent-transaction check" % c.name, c.site())
    oks = pat.ok_returns(cm)
    # Ok(true) only after commit_heads succeeded
    chs = [c for c in cm.calls if c.name == "commit_heads"]
    rep.check(bool(chs) and pat.ok_edge(cm, chs[0]) is not None, "commit|commit_heads-checked", "K2 guarded-by", "commit_heads result is propagated with `?`", site=cm.site())
    # R4: self by value
    rep.check(not cm.local_ty(1).startswith("&"), "commit|consumes-self", "K10 type fact",
              "Transaction::commit takes self by value (type %s)" % cm.local_ty(1)[:60], site=cm.site())

    # R2
    ac = F.fn(T + "add_commands")
    isn = [c for c in ac.calls if c.is_("Option::is_none") and ac.derives_from_field(c.args[0], FIELD)]
    isn = pat.one(rep, isn, "original_heads_offset.is_none()", ac)
    if isn:
        oe = ac.outcome_edges(isn)
        true_t = oe["true"][1]
        stores = ac.field_stores(FIELD)
        mrefs = mut_refs(ac, FIELD)
        rep.floor("add_commands: stamp writes", len(stores), 1)
        bad = [s for s in stores + mrefs if not ac.dominates(true_t, s.bb)]
        rep.check(not bad, "add_commands|stamp-written-once", "K3 who-may-write",
                  "every write of (and &mut to) original_heads_offset in add_commands is inside the `is_none()` region",
                  "add_commands can overwrite original_heads_offset after it was first recorded: a later add refreshes the stamp "
                  "and a concurrent commit goes undetected", ac.site(bad[0].line if bad else None))
        for s in stores:
            o = Operand(s.rv[1]) if s.rv_kind() == "use" else None
            src_ok = False
            loc = o.place.local if o is not None and o.place is not None else None
            if s.rv_kind() == "agg":
                ops = s.operands()
                loc = ops[0].place.local if ops and ops[0].place is not None else None
            if loc is not None:
                src_ok = any(k == "call" and x.name == "heads_offset" for k, x in ac.backward_sources(loc, through_calls=PASS_THROUGH)[1])
            rep.check(src_ok, "add_commands|stamp-from-heads_offset", "K6 provenance", "the recorded stamp is storage.heads_offset()", site=ac.site(s.line))
        # heads seeded in the same region from get_heads
        gh = [c for c in ac.calls if c.name == "get_heads"]
        ins = [c for c in ac.calls if c.name == "insert" and ac.derives_from_field(c.args[0], "heads")]
        rep.check(bool(gh) and bool(ins) and all(ac.dominates(true_t, c.bb) for c in gh + ins), "add_commands|heads-seeded-with-stamp", "K1 pairing",
                  "self.heads is seeded from storage.get_heads() in the same region that records the stamp", site=ac.site())
    # other writers anywhere in the crate
    n = 0
    for f in F.fns:
        if f.path.startswith("aranya_runtime::client::transaction::") and not f.file.endswith("transaction.rs"):
            continue
        st = f.field_stores(FIELD) + mut_refs(f, FIELD)
        if not st:
            continue
        n += 1
        allowed = f.path in (T + "add_commands", T + "commit") or f.path.endswith("Transaction::new")
        if f.path == T + "commit":
            # only Option::take
            takes = [c for c in f.calls if c.is_("Option::take") and f.derives_from_field(c.args[0], FIELD)]
            allowed = len(takes) == len(mut_refs(f, FIELD)) and not f.field_stores(FIELD)
        rep.check(allowed, "writers|%s" % f.path.split("::")[-1], "K3 who-may-write",
                  "%s is an allowed writer of original_heads_offset" % f.path,
                  "%s writes original_heads_offset (only add_commands' first-read, commit's take() and new may)" % f.path, f.site())
    rep.floor("functions touching the stamp mutably", n, 2)

    # R3
    wc = [f for f in F.fns if f.name == "commit" and f.trait and f.trait.endswith("linear::io::Write") and "libc::imp::Writer" in (f.self_ty or "")]
    wc = pat.one(rep, wc, "libc Writer::commit", cm)
    if wc:
        st = wc.field_stores("heads")
        ok = False
        for s in st:
            ops = s.operands() if s.rv_kind() == "agg" else ([Operand(s.rv[1])] if s.rv_kind() == "use" else [])
            for o in ops:
                if o.place is not None and any(k == "call" and x.name == "append_at" for k, x in wc.backward_sources(o.place.local, through_calls=PASS_THROUGH)[1]):
                    ok = True
        wr = [c for c in wc.calls if c.name == "write_root"]
        rep.check(ok and bool(wr) and all(wc.dominates(s.bb, wr[0].bb) for s in st), "Writer::commit|stamp-is-new-offset", "K6 provenance",
                  "root.heads := offset returned by append_at(new head set), before write_root", site=wc.site())
        ho = [f for f in F.fns if f.name == "heads_offset" and "libc::imp::Writer" in (f.self_ty or "")]
        rep.check(len(ho) == 1 and any("heads" in p.fields() for s in ho[0].stmts() for p in s.src_places()), "Writer::heads_offset|reads-root.heads", "K6 provenance",
                  "heads_offset() is root.heads", site=wc.site())
    lc = [f for f in F.fns if f.name == "commit_heads" and f.self_adt and f.self_adt.endswith("linear::LinearStorage")]
    lc = pat.one(rep, lc, "LinearStorage::commit_heads", cm)
    if lc:
        wcs = [c for c in lc.calls if c.name == "commit"]
        oks = pat.ok_returns(lc)
        rep.check(bool(wcs) and all(pat.ok_edge(lc, wcs[0]) and lc.dominates(pat.ok_edge(lc, wcs[0])[1], s.bb) for s in oks), "commit_heads|reaches-writer-commit", "K1 must-pass-through",
                  "every Ok return of LinearStorage::commit_heads passed a successful writer.commit()", site=lc.site())
        cst = lc.field_stores("cached_heads")
        rep.check(bool(cst) and all(lc.dominates(pat.ok_edge(lc, wcs[0])[1], s.bb) for s in cst), "commit_heads|cache-after-durable", "K1 must-pass-through",
                  "cached_heads is replaced only after writer.commit() succeeded", site=lc.site())
    from rules.props import C06 as _c06
    _c06.check_install_fill(F, rep)
