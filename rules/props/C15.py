"""C15 File-backed graph storage survives crashes.

Decided (the write protocol, structural; storage/linear/libc/imp.rs):
 R1 K1+K2 flag-guarded barrier: in Writer::commit, write_root is reachable only after a successful
        file.sync() or through the `data_dirty == false` edge; `data_dirty = false` is stored only
        after that sync succeeded; the head set is appended before the barrier. append_at sets
        data_dirty = true on every Ok path after dump_bytes succeeded.
 R2 K1  write_root: generation bump -> checksum recomputed -> dump(slot, root) -> sync() ->
        next_root = other_root(slot) on every Ok path; `slot` is read from self.next_root.
 R3 K6  Writer::open: both File::load(ROOT_A) and File::load(ROOT_B) results pass through
        Root::validate *before* the choice; each candidate is paired with the slot constant it was
        loaded from; the greater generation wins; next_root = other_root(chosen); the write
        frontier (alloc_end) comes from the chosen root's free_offset.
 R4 K3  only File::write_all calls pwrite; its only caller is dump_bytes, whose callers are
        append_at (offset = root.free_offset) and dump, whose only caller is write_root (offset =
        next_root in {ROOT_A, ROOT_B}: other_root returns only those constants). Root.free_offset is
        written only by Root::new (FREE_START) and append_at (value returned by dump_bytes).
 R5 K6  Root::calc_checksum reads every field of Root except `checksum`; validate compares it.
 R6 K1  File::fallocate = libc::fallocate then libc::fsync (both checked) before Ok.
Not decided: recovery under torn or lost unflushed writes (needs a crash model)."""
from rules.core import pat
from rules.core.facts import Operand, PASS_THROUGH, Place

CRATES = ["aranya_runtime", "aranya_libc"]
M = "aranya_runtime::storage::linear::libc::imp::"


def cname(o):
    if o is not None and o.const is not None:
        d = o.const.get("def") or o.const.get("dbg") or ""
        return d.split("::")[-1]
    return None


def run(F, rep, tier):
    rep.explanation = __doc__
    wc = [f for f in F.fns if f.name == "commit" and f.trait and f.trait.endswith("linear::io::Write") and "libc::imp::Writer" in (f.self_ty or "")]
    wc = pat.one(rep, wc, "Writer::commit", F.fns[0])
    if not wc:
        return
    wr = pat.one(rep, [c for c in wc.calls if c.is_(M + "Writer::write_root")], "write_root call", wc)
    sy = pat.one(rep, [c for c in wc.calls if c.is_(M + "File::sync")], "file.sync() call", wc)
    ap = pat.one(rep, [c for c in wc.calls if c.is_(M + "Writer::append_at")], "append_at call", wc)
    dd = None
    for b in range(wc.nblocks):
        sw = wc.switch_on(b)
        if sw and sw[0].place is not None:
            for k, d in wc.defs().get(sw[0].place.local, []):
                if k == "stmt" and any("data_dirty" in p.fields() for p in d.src_places()):
                    dd = (b, sw[1].get(0), sw[2])
    if wr and sy and ap and dd:
        syok = pat.ok_edge(wc, sy)
        clean_edge = (dd[0], dd[1])
        cut = {clean_edge}
        if syok:
            cut.add(syok)
        rep.check(syok is not None and wr.bb not in wc.reachable(0, cut_edges=cut), "commit|root-after-data-barrier", "K1 must-pass-through",
                  "write_root is reachable only through a successful file.sync() or the data_dirty == false edge",
                  "Writer::commit can write the root before the appended data was flushed", wr.site())
        rep.check(wc.dominates(dd[2], sy.bb) and sy.bb not in wc.reachable(dd[1], cut_blocks={dd[0]}), "commit|sync-on-dirty-edge", "K2 guarded-by",
                  "file.sync() sits on the data_dirty == true edge", site=sy.site())
        st = wc.field_stores("data_dirty")
        rep.check(bool(st) and syok is not None and all(wc.dominates(syok[1], s.bb) and Operand(s.rv[1]).val == 0 for s in st), "commit|dirty-cleared-after-sync", "K1 must-pass-through",
                  "data_dirty = false only after sync() succeeded", "Writer::commit clears data_dirty before the flush succeeded", wc.site())
        apok = pat.ok_edge(wc, ap)
        rep.check(apok is not None and wc.dominates(apok[1], dd[0]) and wc.dominates(apok[1], wr.bb), "commit|heads-appended-before-barrier", "K1 must-pass-through",
                  "the new head set is appended (successfully) before the data barrier and the root write", site=ap.site())
        hs = wc.field_stores("heads") + wc.field_stores("fact_cache")
        rep.check(len(hs) >= 2 and all(wc.dominates(s.bb, wr.bb) for s in hs), "commit|root-fields-before-write_root", "K1 must-pass-through",
                  "root.heads / root.fact_cache are set before write_root", site=wc.site())
        oks = pat.ok_returns(wc)
        wrok = pat.ok_edge(wc, wr)
        rep.check(wrok is not None and all(wc.dominates(wrok[1], s.bb) for s in oks), "commit|ok-after-root", "K1 must-pass-through",
                  "Ok only after write_root succeeded", site=wc.site())
    else:
        rep.anchor_missing("Writer::commit: write_root / sync / append_at / data_dirty test not found")

    aa = F.fn(M + "Writer::append_at")
    db = pat.one(rep, [c for c in aa.calls if c.is_(M + "File::dump_bytes")], "dump_bytes in append_at", aa)
    if db:
        dbok = pat.ok_edge(aa, db)
        st = aa.field_stores("data_dirty")
        oks = pat.ok_returns(aa)
        rep.check(dbok is not None and bool(st) and all(aa.dominates(dbok[1], s.bb) and Operand(s.rv[1]).val == 1 for s in st) and all(any(aa.dominates(s.bb, o.bb) for s in st) for o in oks),
                  "append_at|marks-dirty", "K1 must-pass-through", "every Ok path of append_at sets data_dirty = true after dump_bytes succeeded",
                  "append_at can return Ok without marking the data dirty (commit would then skip the flush)", aa.site())
        rep.check(aa.derives_from_field(db.args[1], "free_offset"), "append_at|offset-is-frontier", "K6 provenance",
                  "dump_bytes writes at root.free_offset", site=db.site())
        fo = aa.field_stores("free_offset")
        ok = bool(fo) and all(dbok and aa.dominates(dbok[1], s.bb) for s in fo)
        for s in fo:
            o = Operand(s.rv[1]) if s.rv_kind() == "use" else None
            ok = ok and o is not None and o.place is not None and any(k == "call" and c is db for k, c in aa.backward_sources(o.place.local, through_calls=PASS_THROUGH)[1])
        rep.check(ok, "append_at|frontier-advances-to-end-of-write", "K6 provenance", "root.free_offset := offset returned by dump_bytes", site=aa.site())
        ec = [c for c in aa.calls if c.is_(M + "Writer::ensure_capacity")]
        rep.check(bool(ec) and pat.ok_edge(aa, ec[0]) is not None and aa.dominates(pat.ok_edge(aa, ec[0])[1], db.bb), "append_at|capacity-before-write", "K1 must-pass-through",
                  "ensure_capacity succeeds before the data is written", site=aa.site())

    # R2 write_root
    wrf = F.fn(M + "Writer::write_root")
    dmp = pat.one(rep, [c for c in wrf.calls if c.is_(M + "File::dump")], "dump in write_root", wrf)
    syn = pat.one(rep, [c for c in wrf.calls if c.is_(M + "File::sync")], "sync in write_root", wrf)
    orc = pat.one(rep, [c for c in wrf.calls if c.is_(M + "other_root")], "other_root in write_root", wrf)
    csum = [c for c in wrf.calls if c.is_(M + "Root::calc_checksum")]
    if dmp and syn and orc:
        dok, sok = pat.ok_edge(wrf, dmp), pat.ok_edge(wrf, syn)
        gen = wrf.field_stores("generation")
        cks = wrf.field_stores("checksum")
        nr = wrf.field_stores("next_root")
        oks = pat.ok_returns(wrf)
        ok = dok and sok and wrf.dominates(dok[1], syn.bb) and bool(nr) and all(wrf.dominates(sok[1], s.bb) for s in nr) and all(any(wrf.dominates(s.bb, o.bb) for s in nr) for o in oks)
        rep.check(bool(ok), "write_root|dump-sync-flip", "K1 must-pass-through",
                  "dump(slot, root) Ok -> sync() Ok -> next_root := other slot, on every Ok path",
                  "write_root does not flush the new root before flipping slots / returning Ok", wrf.site())
        ok = bool(gen) and bool(cks) and bool(csum) and all(wrf.dominates(g.bb, c.bb) for g in gen for c in csum) and all(wrf.dominates(c.bb, dmp.bb) for c in csum) \
            and all(wrf.dominates(s.bb, dmp.bb) for s in cks)
        rep.check(ok, "write_root|checksum-after-bump-before-dump", "K1 must-pass-through",
                  "generation is bumped, then the checksum recomputed and stored, then the root dumped", site=wrf.site())
        slot_ok = wrf.derives_from_field(dmp.args[1], "next_root") and not any(k == "call" and c.is_(M + "other_root") for k, c in wrf.backward_sources(dmp.args[1].place.local)[1])
        flip_ok = orc.args[0].place is not None and (wrf.backward_sources(orc.args[0].place.local)[0] & wrf.backward_sources(dmp.args[1].place.local)[0])
        rep.check(slot_ok and bool(flip_ok), "write_root|writes-inactive-slot", "K6 provenance",
                  "the root is dumped at self.next_root (the inactive slot) and next_root becomes other_root(of that slot)",
                  "write_root does not write the inactive slot (in-place root overwrite)", dmp.site())
        rep.check(any(wrf.derives_from_field(a, "root") for a in dmp.args[2:]), "write_root|dumps-self.root", "K6 provenance", "the value dumped is self.root", site=dmp.site())
    orf = F.fn(M + "other_root")
    rets = {cname(Operand(s.rv[1])) for s in orf.stmts() if s.place is not None and s.place.local == 0 and s.rv_kind() == "use"}
    rep.check(rets == {"ROOT_A", "ROOT_B"}, "other_root|range", "K7 table", "other_root returns only ROOT_A / ROOT_B (found %s)" % sorted(x for x in rets if x), site=orf.site())
    ra, rb, fs = F.consts.get(M + "ROOT_A", {}).get("val"), F.consts.get(M + "ROOT_B", {}).get("val"), F.consts.get(M + "FREE_START", {}).get("val")
    rep.check(ra is not None and rb is not None and fs is not None and ra != rb and max(ra, rb) < fs, "layout|slots-below-data", "K7 table",
              "ROOT_A=%s, ROOT_B=%s are distinct and below FREE_START=%s" % (ra, rb, fs))

    # R3 open
    op = F.fn(M + "Writer::open")
    loads = [c for c in op.calls if c.is_(M + "File::load")]
    rep.floor("open: root loads", len(loads), 2)
    slots = {}
    for c in loads:
        slot = cname(c.args[1])
        al = op.forward_aliases(c.dest.local)
        vt = [x for x in op.calls if x.is_("Result::and_then") and x.args[0].place is not None and x.args[0].place.local in al
              and x.args[1].const is not None and (x.args[1].const.get("fn") or {}).get("path", "").endswith("Root::validate")]
        rep.check(len(vt) == 1, "open|validate:%s" % slot, "K6 provenance",
                  "load(%s) is validated (and_then(Root::validate)) before it can be chosen" % slot,
                  "Writer::open uses the root loaded from %s without validating its checksum first" % slot, c.site())
        if vt:
            slots[slot] = vt[0]
    rep.check(set(slots) == {"ROOT_A", "ROOT_B"}, "open|both-slots-considered", "K6 provenance", "both ROOT_A and ROOT_B are loaded and validated", site=op.site())
    # candidate/slot pairing in tuples (root_x, ROOT_X)
    pairs = [s for s in op.stmts() if s.rv_kind() == "agg" and s.rv[1].get("k") == "tuple" and len(s.rv[2]) == 2 and cname(Operand(s.rv[2][1])) in ("ROOT_A", "ROOT_B")]
    rep.floor("open: (root, slot) choices", len(pairs), 4)
    good = True
    for s in pairs:
        slot = cname(Operand(s.rv[2][1]))
        o = Operand(s.rv[2][0])
        srcs = op.backward_sources(o.place.local, through_calls=("Result::and_then",))[1]
        ld = [c for k, c in srcs if k == "call" and c.is_(M + "File::load")]
        if not ld or any(cname(c.args[1]) != slot for c in ld):
            good = False
    rep.check(good, "open|candidate-paired-with-its-slot", "K6 provenance", "each chosen root is paired with the slot constant it was loaded from", site=op.site())
    cmpc = [c for c in op.calls if c.is_("Ord::cmp")]
    ok = False
    if len(cmpc) == 1:
        c = cmpc[0]
        ok = op.derives_from_field(c.args[0], "generation") and op.derives_from_field(c.args[1], "generation")
        sw = [x for x in op.discr_switches("cmp::Ordering")]
        if ok and sw:
            b, arms, other, st = sw[0]
            # first operand from ROOT_A's load
            a_src = [x for k, x in op.backward_sources(c.args[0].place.local, through_calls=("Result::and_then",))[1] if k == "call" and x.is_(M + "File::load")]
            first = cname(a_src[0].args[1]) if a_src else None
            less_pairs = [s for s in pairs if s.bb in op.dominated_region(arms.get("Less"))]
            ge_pairs = [s for s in pairs if any(s.bb in op.dominated_region(arms.get(k)) for k in ("Equal", "Greater") if k in arms)]
            second = "ROOT_B" if first == "ROOT_A" else "ROOT_A"
            ok = bool(less_pairs) and bool(ge_pairs) and all(cname(Operand(s.rv[2][1])) == second for s in less_pairs) and all(cname(Operand(s.rv[2][1])) == first for s in ge_pairs)
    rep.check(ok, "open|newest-generation-wins", "K2 polarity", "generation(a).cmp(generation(b)): Less -> b's root, otherwise a's",
              "Writer::open does not pick the root with the greater generation", op.site())
    wag = [s for s in op.stmts() if s.rv_kind() == "agg" and s.rv[1].get("adt", "").endswith("imp::Writer")]
    ok = False
    if len(wag) == 1:
        flds = wag[0].rv[1]["fields"]
        ops = wag[0].operands()
        nr = ops[flds.index("next_root")]
        ae = ops[flds.index("alloc_end")]
        ok = nr.place is not None and any(k == "call" and c.is_(M + "other_root") for k, c in op.backward_sources(nr.place.local)[1]) and op.derives_from_field(ae, "free_offset")
    rep.check(ok, "open|next-slot-and-frontier", "K6 provenance", "next_root = other_root(chosen) and alloc_end = chosen root's free_offset", site=op.site())

    # R4 who-may-call
    def callers(pat_):
        cs = [(f, c) for f, c in F.callers_of(pat_) if "linear/libc/" in f.file]
        return sorted({f.path for f, c in cs if not f.root} | {f.root for f, c in cs if f.root})
    pw = callers("aranya_libc::api::pwrite") + callers("aranya_libc::pwrite")
    pw = sorted(set(pw))
    rep.check(pw == [M + "File::write_all"], "io|pwrite-callers", "K3 who-may-call", "within the graph-file module pwrite is called only from File::write_all (found %s)" % pw, None)
    rep.check(callers(M + "File::write_all") == [M + "File::dump_bytes"], "io|write_all-callers", "K3 who-may-call", "write_all <- dump_bytes only (found %s)" % callers(M + "File::write_all"))
    rep.check(callers(M + "File::dump_bytes") == sorted([M + "File::dump", M + "Writer::append_at"]), "io|dump_bytes-callers", "K3 who-may-call",
              "dump_bytes <- {dump, append_at} only (found %s)" % callers(M + "File::dump_bytes"))
    rep.check(callers(M + "File::dump") == [M + "Writer::write_root"], "io|dump-callers", "K3 who-may-call", "dump <- write_root only (found %s)" % callers(M + "File::dump"))
    # free_offset writers
    fow = set()
    for f in F.fns_in_file("linear/libc/imp.rs"):
        if f.derived:
            continue
        if f.field_stores("free_offset"):
            fow.add(f.path)
        for s in f.stmts():
            if s.rv_kind() == "ref" and s.rv[1] == "mut" and "free_offset" in Place(s.rv[2]).fields():
                fow.add(f.path)
    rep.check(fow == {M + "Writer::append_at"}, "root|free_offset-writers", "K3 who-may-write", "root.free_offset is assigned only in append_at (found %s)" % sorted(fow))
    rn = F.fn(M + "Root::new")
    ag = [s for s in rn.stmts() if s.rv_kind() == "agg" and s.rv[1].get("adt", "").endswith("imp::Root")]
    ok = False
    if ag:
        flds = ag[0].rv[1]["fields"]
        ok = cname(ag[0].operands()[flds.index("free_offset")]) == "FREE_START"
    rep.check(ok, "root|initial-frontier", "K6 provenance", "Root::new starts the frontier at FREE_START", site=rn.site())
    # next_root writers: create (ROOT_A), open (other_root), write_root (other_root)
    # R5
    root = F.adt(M + "Root")
    fields = [x["name"] for x in root["variants"][0]["fields"]]
    cc = F.fn(M + "Root::calc_checksum")
    read = set()
    for s in cc.stmts():
        for p in s.src_places():
            read |= set(p.fields())
    missing = [x for x in fields if x != "checksum" and x not in read]
    rep.check(not missing and "checksum" not in read, "checksum|field-coverage", "K6 field coverage",
              "calc_checksum reads every Root field except checksum: %s" % [x for x in fields if x != "checksum"],
              "Root fields not covered by the checksum: %s" % missing, cc.site())
    va = F.fn(M + "Root::validate")
    cmp_ = [c for c in va.cmp_switches() if va.derives_from_field(c["a"], "checksum") or va.derives_from_field(c["b"], "checksum")]
    ok = False
    if len(cmp_) == 1:
        c = cmp_[0]
        oks = pat.ok_returns(va)
        ok = any(x.is_(M + "Root::calc_checksum") for x in va.calls) and all(va.dominates(c["eq"], s.bb) for s in oks) and bool(oks)
    rep.check(ok, "checksum|validate", "K2 guarded-by", "validate returns Ok only on checksum == calc_checksum()", site=va.site())
    # R6
    fa = F.fn(M + "File::fallocate")
    c1 = [c for c in fa.calls if c.name == "fallocate"]
    c2 = [c for c in fa.calls if c.name == "fsync"]
    ok = False
    if len(c1) == 1 and len(c2) == 1:
        e1, e2 = pat.ok_edge(fa, c1[0]), pat.ok_edge(fa, c2[0])
        ok = e1 and e2 and fa.dominates(e1[1], c2[0].bb) and all(fa.dominates(e2[1], s.bb) for s in pat.ok_returns(fa))
    rep.check(bool(ok), "fallocate|fsync", "K1 must-pass-through", "File::fallocate = fallocate() Ok -> fsync() Ok -> Ok", site=fa.site())
    sy2 = F.fn(M + "File::sync")
    rep.check(any(c.name in ("fdatasync", "fsync") for c in sy2.calls), "sync|flushes", "K1 must-pass-through", "File::sync calls fdatasync/fsync", site=sy2.site())
