"""C35 Replicas accept only authentic commands.

Decided (envelope provenance and open-before-policy; structural):
 R1 K6  VmPolicy::call_rule builds the Envelope given to the policy's open block with parent_id from
        command.parent() (the single parent's id), command_id from command.id(), author_id and
        signature from the VmProtocolData decoded out of command.bytes(); the payload handed to
        open is the decoded serialized_fields.
 R2 K1+K2 evaluate_rule is reachable only after open_command returned Ok for OnGraphAtOrigin and
        OffGraph; only the OnGraphInBraid arm skips it. open_command maps Check and Panic exits (and
        machine errors) to Err, Normal to Ok.
 R3 K2  the declared priority is compared with the policy's priority for the command kind before
        open/evaluation; a mismatch returns Err.
 R4 K7  Envelope <-> Struct field tables agree: each (ident!("X"), e.X) pair in From<Envelope> for
        Struct uses the field's own name, and TryFrom<Struct> reads each field X with get(fields, "X").
 R5 K2  merge commands are content-bound: add_merge stores a received two-parent command only if its
        id equals the id Policy::merge derives for these parents - today a KNOWN FINDING
        (known_findings.json): the comparison does not exist.
Not decided: what a policy's `open` block verifies (a property of the policy, e.g. crypto::verify,
see C34)."""
from rules.core import pat
from rules.core.facts import Operand, PASS_THROUGH

CRATES = ["aranya_runtime", "aranya_policy_module"]


def cstr(o):
    if o is not None and o.const is not None:
        d = o.const.get("dbg") or ""
        if d.startswith('"') and d.endswith('"'):
            return d[1:-1]
    return None


def run(F, rep, tier):
    rep.explanation = __doc__
    g = [x for x in F.fns if x.name == "call_rule" and x.trait and x.trait.endswith("policy::Policy") and x.self_adt and x.self_adt.endswith("vm_policy::VmPolicy")]
    g = pat.one(rep, g, "VmPolicy::call_rule", F.fns[0])
    if not g:
        return
    env = [s for s in g.stmts() if s.rv_kind() == "agg" and s.rv[1].get("adt", "").endswith("protocol::Envelope")]
    env = pat.one(rep, env, "Envelope construction", g)
    if env:
        fl = env.rv[1]["fields"]
        ops = env.operands()
        T = PASS_THROUGH + ("Cow::Borrowed", "from_bytes", "postcard::from_bytes")
        po = g.origins(ops[fl.index("parent_id")], through_calls=("parent", "Command::parent"))
        co = g.origins(ops[fl.index("command_id")], through_calls=())
        ao = g.origins(ops[fl.index("author_id")], through_calls=T + ("bytes",))
        so = g.origins(ops[fl.index("signature")], through_calls=T + ("bytes",))
        ok = "call:parent" in po and "field:id" in po and "call:id" in co and "call:from_bytes" in ao and "field:author_id" in ao and "call:from_bytes" in so and "field:signature" in so
        rep.check(ok, "call_rule|envelope-provenance", "K6 provenance",
                  "Envelope{parent_id <- command.parent().id, command_id <- command.id(), author_id/signature <- decoded command.bytes()}",
                  "the envelope handed to `open` is not built from the received command (parent %s, id %s, author %s, sig %s)" % (sorted(po), sorted(co), sorted(ao), sorted(so)), g.site())
        fb = [c for c in g.calls if c.name == "from_bytes"]
        rep.check(len(fb) == 1 and "call:bytes" in g.origins(fb[0].args[0], through_calls=("bytes", "Command::bytes")), "call_rule|decodes-command-bytes", "K6 provenance",
                  "VmProtocolData is decoded from command.bytes()", site=g.site())
    oc = [c for c in g.calls if c.name == "open_command"]
    er = [c for c in g.calls if c.name == "evaluate_rule"]
    oc1 = pat.one(rep, oc, "open_command call", g)
    er1 = pat.one(rep, er, "evaluate_rule call", g)
    if oc1 and er1:
        oke = pat.ok_edge(g, oc1)
        sws = [x for x in g.discr_switches("policy::CommandPlacement")]
        # the switch that decides whether open runs: its arms either reach open_command or not
        dec = [x for x in sws if any(oc1.bb in g.dominated_region(t) for t in x[1].values())]
        ok = oke is not None and len(dec) == 1
        skip = []
        if ok:
            b, arms, other, st = dec[0]
            for v, t in arms.items():
                if oc1.bb not in g.reachable(t, cut_blocks={er1.bb}):
                    skip.append(v)
            # evaluate_rule unreachable if both the open-Ok edge and the skipping arms are cut
            cut = {oke} | {(b, arms[v]) for v in skip}
            ok = er1.bb not in g.reachable(0, cut_edges=cut) and skip == ["OnGraphInBraid"] and g.is_unreachable_block(other)
        rep.check(ok, "call_rule|open-before-policy", "K2 guarded-by",
                  "evaluate_rule is reachable only through open_command's Ok edge, except on the OnGraphInBraid arm (arms skipping open: %s)" % skip,
                  "a command can reach evaluate_rule without its `open` block having succeeded (arms skipping open: %s)" % skip, er1.site())
        # open gets the envelope and the decoded payload
        eo = g.origins(oc1.args[3], through_calls=("clone", "Clone::clone"))
        rep.check(env is not None and env.place.local in g.backward_sources(oc1.args[3].place.local, through_calls=("Clone::clone",))[0], "call_rule|open-gets-envelope", "K6 provenance",
                  "open_command receives that envelope", site=oc1.site())
    # R3 priority
    pr = [c for c in g.cmp_switches() if "call:priority" in g.origins(c["a"], through_calls=("Command::priority", "priority")) or "call:priority" in g.origins(c["b"], through_calls=("priority",))]
    ok = len(pr) >= 1
    if ok and oc1 and er1:
        c = pr[0]
        both = "call:get_command_priority" in (g.origins(c["a"], through_calls="*") | g.origins(c["b"], through_calls="*"))
        errs = [s for s in g.stmts() if s.rv_kind() == "agg" and s.rv[1].get("variant") == "Err" and s.bb in g.reachable(c["ne"]) and not g.dominates(c["eq"], s.bb)]
        ok = both and g.dominates(c["eq"], oc1.bb) and g.dominates(c["eq"], er1.bb) and bool(errs)
    rep.check(ok, "call_rule|priority-check", "K2 guarded-by",
              "open/evaluate are dominated by `command.priority() == policy priority of the kind`; mismatch returns Err", site=g.site())
    # open_command exit mapping
    o = F.fn("aranya_runtime::vm_policy::VmPolicy::open_command")
    sw = [x for x in o.discr_switches("ExitReason")]
    ok = False
    if sw:
        b, arms, other, st = sw[0]
        def kind(t):
            reg = o.dominated_region(t)
            oks = [s for s in o.stmts() if s.bb in reg and s.rv_kind() == "agg" and s.rv[1].get("variant") == "Ok" and s.place.local == 0]
            ers = [s for s in o.stmts() if s.bb in reg and s.rv_kind() == "agg" and s.rv[1].get("variant") == "Err" and s.place.local == 0]
            bug = [c for c in o.calls if c.bb in reg and c.is_("Bug::new")]
            return ("ok" if oks else "") + ("err" if ers or bug else "")
        table = {v: kind(t) for v, t in arms.items()}
        ok = table.get("Normal") == "ok" and table.get("Check") == "err" and table.get("Panic") == "err" and table.get("Yield") == "err"
        co = [c for c in o.calls if c.name == "call_open"]
        ok = ok and len(co) == 1
        rep.check(ok, "open_command|exit-mapping", "K7 table", "open_command: Normal -> Ok, Check/Panic/Yield -> Err (%s)" % table,
                  "open_command accepts a command whose open block did not exit normally: %s" % table, o.site())
    else:
        rep.anchor_missing("open_command: ExitReason match")
    # R4
    fr = [f for f in F.fns_in_file("vm_policy/protocol.rs") if f.name == "from" and f.trait and f.trait.endswith("convert::From") and f.self_adt and f.self_adt.endswith("data::Struct")]
    fr = pat.one(rep, fr, "From<Envelope> for Struct", g)
    eadt = F.adt("aranya_runtime::vm_policy::protocol::Envelope")
    efields = [x["name"] for x in eadt["variants"][0]["fields"]]
    if fr:
        tups = [s for s in fr.stmts() if s.rv_kind() == "agg" and s.rv[1].get("k") == "tuple" and len(s.rv[2]) == 2]
        seen = {}
        good = True
        for s in tups:
            k, v = s.operands()
            lit = None
            for kk, c in fr.backward_sources(k.place.local, through_calls=())[1]:
                if kk == "call" and c.name == "__from_literal":
                    lit = cstr(c.args[0])
            vo = fr.origins(v, through_calls="*")
            fld = [f for f in efields if "field:" + f in vo]
            seen[lit] = fld
            if lit is None or fld != [lit]:
                good = False
        rep.check(good and set(seen) == set(efields), "Envelope->Struct|names", "K7 table agreement",
                  "each Envelope field is stored under its own name: %s" % seen,
                  "Envelope -> Struct conversion mislabels a field: %s (fields %s)" % (seen, efields), fr.site())
    tf = [f for f in F.fns_in_file("vm_policy/protocol.rs") if f.name == "try_from" and f.self_adt and f.self_adt.endswith("protocol::Envelope")]
    tf = pat.one(rep, tf, "TryFrom<Struct> for Envelope", g)
    if tf:
        ag = [s for s in tf.stmts() if s.rv_kind() == "agg" and s.rv[1].get("adt", "").endswith("protocol::Envelope")]
        good = len(ag) == 1
        table = {}
        if good:
            fl = ag[0].rv[1]["fields"]
            for name, o in zip(fl, ag[0].operands()):
                gets = [c for k, c in tf.backward_sources(o.place.local, through_calls=PASS_THROUGH)[1] if k == "call" and c.name == "get"]
                lits = sorted({cstr(c.args[1]) for c in gets})
                table[name] = lits
                if lits != [name]:
                    good = False
        rep.check(good and set(table) == set(efields), "Struct->Envelope|names", "K7 table agreement",
                  "each Envelope field is read from the struct member of the same name: %s" % table,
                  "Struct -> Envelope conversion reads a field from the wrong member: %s" % table, tf.site())
    merge_binding_rule(F, rep)


def merge_binding_rule(F, rep):
    """R5: every command stored by add_commands is authenticated one way or the other. A single-parent command
    goes through the policy's open block (R2). A two-parent (merge) command is never evaluated (C02), so the
    only thing that can authenticate it is its content binding: its id must be the id the policy derives for
    exactly these two parents (Policy::merge over MergeIds), checked before it is stored. Otherwise any signed
    command whose parent link is rewritten to Prior::Merge(l, r) in transit is stored unverified."""
    T = "aranya_runtime::client::transaction::Transaction::"
    am = F.fn(T + "add_merge")
    adds = pat.trait_calls(am, "storage::Perspective", "add_command")
    if not adds:
        rep.anchor_missing("add_merge: perspective.add_command")
        return
    # a comparison involving the received command's id and a value derived from Policy::merge / merge-id derivation
    bound = False
    for c in am.cmp_switches():
        oa, ob = am.origins(c["a"], through_calls="*"), am.origins(c["b"], through_calls="*")
        both = oa | ob
        if "call:id" in both and ("call:merge" in both or "call:merge_cmd_id" in both):
            t = c.get("eq")
            if t is not None and all(am.dominates(t, a.bb) for a in adds):
                bound = True
    rep.check(bound, "add_merge|merge-command-bound-to-its-parents", "K2 guarded-by",
              "a received merge command is stored only on the equality edge of its id with the id Policy::merge derives for (left, right)",
              "Transaction::add_merge stores whatever command arrives with a Prior::Merge parent link: its id is never compared with the id the policy derives for these two parents, "
              "and merge commands are never evaluated, so a signed command re-parented as a merge in transit is accepted and stored without any verification", am.site())
