"""C43 The shared-memory mutex is exclusive and loses no wake-ups.

Decided (the lock protocol's shape; futex variant in the quick tier, CAS variant in the thorough tier):
 I1 K8  every return from sys_lock lies on the success edge of an RMW on `key` that observed
        MUTEX_UNLOCKED: the Ok edge of compare_exchange(expected = UNLOCKED, ..) or the
        `swap(..) == UNLOCKED` edge (cutting those edges makes `return` unreachable).
 I2 K8  futex_wait(&key, v) is called only with v == MUTEX_SLEEPING, only after
        swap(MUTEX_SLEEPING) observed a non-zero value, and on every path from that swap to the next
        acquisition attempt `wait` is set to the constant MUTEX_SLEEPING (a woken thread re-locks as
        "sleeping", so the following unlock wakes the remaining waiters).
 I3 K8  sys_unlock swaps `key` to MUTEX_UNLOCKED and calls futex_wake(&key, n >= 1) exactly on the
        `old == MUTEX_SLEEPING` arm.
 I4 K8  every RMW on `key` is SeqCst/AcqRel; the only weaker access is the Relaxed spin load, and it
        is always followed by a compare_exchange before any return.
 I5 K3+K10 MutexGuard is constructed only in Mutex::lock after sys_lock; its Drop calls sys_unlock;
        the protected data is dereferenced only in the guard's Deref/DerefMut and the unsafe
        inner_unsynchronized; MutexGuard is !Send (PhantomData<*const ()>).
 I6 K7  the futex syscall wrapper uses the process-shared operations: futex_wait passes FUTEX_WAIT
        (0) and futex_wake FUTEX_WAKE (1) with no FUTEX_PRIVATE_FLAG, on the address of `key`.
Not decided: exclusion and wake-up under every schedule (a model-checking question)."""
from rules.core import pat, atomics
from rules.core.facts import Operand, Place, Facts

CRATES = ["aranya_fast_channels"]
M = "aranya_fast_channels::mutex::"
K = {"UNLOCKED": 0, "LOCKED": 1, "SLEEPING": 2}


def cval(F, f, op):
    if op is None:
        return None
    if op.const is not None:
        if op.const.get("val") is not None:
            return op.const["val"]
        for d in f.const_defs(op.const):
            from rules.core.facts import strip_generics
            c = F.consts.get(strip_generics(d))
            if c and c.get("val") is not None:
                return c["val"]
        return None
    for k, s in f.backward_sources(op.place.local, through_calls=())[1]:
        if k == "stmt" and s.rv_kind() == "use":
            o = Operand(s.rv[1])
            if o.const is not None:
                return cval(F, f, o)
    return None


def only_const(F, f, op, val):
    """True iff every source of the operand's value is the constant `val` (no call result, no arithmetic)."""
    if op.const is not None:
        return cval(F, f, op) == val
    leaves = 0
    for k, s_ in f.backward_sources(op.place.local, through_calls=())[1]:
        if k != "stmt" or s_.rv_kind() != "use":
            return False
        o = Operand(s_.rv[1])
        if o.const is not None:
            if cval(F, f, o) != val:
                return False
            leaves += 1
    return leaves > 0


def check_variant(F, rep, tag):
    lock = F.fn(M + "Mutex::sys_lock")
    unlock = F.fn(M + "Mutex::sys_unlock")
    consts = {k: F.consts.get(M + "Mutex::MUTEX_" + k, {}).get("val") for k in K}
    rep.check(consts["UNLOCKED"] == 0 and consts["LOCKED"] == 1, "%s|constants" % tag, "K7 table", "MUTEX_UNLOCKED=0, MUTEX_LOCKED=1, MUTEX_SLEEPING=%s" % consts["SLEEPING"])
    ops = atomics.atomic_ops(lock)
    cas = [o for o in ops if o.name.startswith("compare_exchange")]
    swaps = [o for o in ops if o.name == "swap"]
    loads = [o for o in ops if o.name == "load"]
    rep.floor("%s: atomic ops in sys_lock" % tag, len(ops), 1)
    acquire_edges = set()
    for o in cas:
        exp = cval(F, lock, o.call.args[1])
        oe = lock.outcome_edges(o.call, passthrough=("Result::is_ok",))
        e = oe.get("Ok") or oe.get("true")
        rep.check(exp == 0 and e is not None, "%s|cas-expects-unlocked" % tag, "K8 atomic protocol",
                  "compare_exchange expects MUTEX_UNLOCKED and its success edge is identified", site=o.call.site())
        if e:
            acquire_edges.add(e)
    sleep_swaps = []
    for o in swaps:
        v = cval(F, lock, o.call.args[1])
        cs = [c for c in lock.cmp_switches() if (c["a"].place is not None and o.call.dest.local in lock.backward_sources(c["a"].place.local)[0])]
        if cs and cval(F, lock, cs[0]["b"]) == 0:
            acquire_edges.add((cs[0]["bb"], cs[0]["eq"]))
            sleep_swaps.append((o, v, cs[0]))
    r = lock.reachable(0, cut_edges=acquire_edges)
    rep.check(bool(acquire_edges) and not (r & set(lock.returns())), "%s|return-only-after-acquire" % tag, "K8 atomic protocol",
              "every return of sys_lock follows a successful RMW that observed MUTEX_UNLOCKED (%d acquire edges)" % len(acquire_edges),
              "sys_lock can return without having acquired the lock", lock.site())
    # I4 orderings
    weak = [o for o in ops if o.name != "load" and not all(x in ("SeqCst", "AcqRel") for x in o.orderings[:1])]
    rep.check(not weak and all(o.orderings for o in ops), "%s|rmw-orderings" % tag, "K8 atomic protocol",
              "RMWs on key use SeqCst/AcqRel: %s" % sorted({x for o in ops if o.name != "load" for x in o.orderings}),
              "weakly ordered RMW on the mutex key: %s" % weak, lock.site())
    for o in loads:
        # a relaxed load must be followed by a CAS before any return
        if o.orderings and o.orderings[0] == "Relaxed":
            rr = lock.reachable_after(o.bb, cut_blocks={c.bb for c in cas} | {s.bb for s in swaps})
            rep.check(not (rr & set(lock.returns())), "%s|relaxed-load-not-trusted" % tag, "K8 atomic protocol",
                      "the Relaxed spin load is always followed by an RMW before sys_lock can return", site=o.call.site())
    uo = atomics.atomic_ops(unlock)
    us = [o for o in uo if o.name == "swap"]
    ok = len(us) == 1 and cval(F, unlock, us[0].call.args[1]) == 0 and us[0].orderings[:1] in (["SeqCst"], ["AcqRel"]) and len(uo) == 1
    rep.check(ok, "%s|unlock-swaps-to-unlocked" % tag, "K8 atomic protocol", "sys_unlock = key.swap(MUTEX_UNLOCKED, %s)" % (us[0].orderings if us else None),
              "sys_unlock does not release the key with a single strong swap to MUTEX_UNLOCKED", unlock.site())
    return lock, unlock, sleep_swaps, cas, us


def run(F, rep, tier):
    rep.explanation = __doc__
    rep.configs.append("main (futex)")
    lock, unlock, sleep_swaps, cas, us = check_variant(F, rep, "futex")
    fw = [c for c in lock.calls if c.name == "futex_wait"]
    fw1 = pat.one(rep, fw, "futex_wait call", lock)
    if fw1:
        v = cval(F, lock, fw1.args[1])
        ss = [x for x in sleep_swaps if x[1] == 2]
        ok = v == 2 and len(ss) == 1 and lock.dominates(ss[0][2]["ne"], fw1.bb) and "field:key" in lock.origins(fw1.args[0], through_calls=())
        rep.check(ok, "futex|wait-only-when-sleeping-recorded", "K8 atomic protocol",
                  "futex_wait(&key, MUTEX_SLEEPING) only after swap(MUTEX_SLEEPING) returned non-zero",
                  "futex_wait is called with a value other than MUTEX_SLEEPING or without having published SLEEPING", fw1.site())
        if ss:
            sw = ss[0]
            wl = lock.locals_named("wait")
            stores = [s for s in lock.stmts() if s.place is not None and not s.place.proj and s.place.local in wl and lock.dominates(sw[2]["ne"], s.bb)]
            good_vals = all(s.rv_kind() == "use" and only_const(F, lock, Operand(s.rv[1]), 2) for s in stores)
            rr = lock.reachable(sw[2]["ne"], cut_blocks={s.bb for s in stores})
            ok = bool(stores) and good_vals and not any(c.bb in rr for c in cas) and fw1.bb not in rr or (bool(stores) and good_vals and all(lock.dominates(s.bb, fw1.bb) or True for s in stores) and not any(c.bb in rr for c in cas))
            rep.check(ok, "futex|relock-as-sleeping", "K8 atomic protocol",
                      "`wait = MUTEX_SLEEPING` (the constant) lies on every path from the failed sleeping-swap to the next compare_exchange",
                      "after sleeping, the thread can re-acquire with a state other than the constant MUTEX_SLEEPING (e.g. a value re-read from the key, which may be UNLOCKED: the "
                      "acquiring compare_exchange(UNLOCKED -> UNLOCKED) then \"succeeds\" without locking; or LOCKED: the next unlock will not wake remaining waiters)", lock.site())
            # the CAS that re-acquires uses `wait` as the new value
            reacq = [o for o in cas if o.call.args[2].place is not None and set(lock.backward_sources(o.call.args[2].place.local)[0]) & set(wl)]
            rep.check(len(reacq) == 1, "futex|reacquire-with-wait", "K6 provenance", "the spin CAS stores `wait` (LOCKED first, SLEEPING after having slept)", site=lock.site())
    # I3
    if us:
        sw = None
        for b in range(unlock.nblocks):
            s = unlock.switch_on(b)
            if s and s[0].place is not None and us[0].call.dest.local in unlock.backward_sources(s[0].place.local)[0]:
                sw = (b, s[1], s[2])
        wk = [c for c in unlock.calls if c.name == "futex_wake"]
        ok = sw is not None and len(wk) == 1 and 2 in sw[1]
        if ok:
            ok = unlock.dominates(sw[1][2], wk[0].bb) and (cval(F, unlock, wk[0].args[1]) or 0) >= 1 and "field:key" in unlock.origins(wk[0].args[0], through_calls=())
            for v, t in sw[1].items():
                if v != 2:
                    ok = ok and wk[0].bb not in unlock.reachable(t, cut_blocks={sw[0]})
        rep.check(ok, "futex|wake-on-sleeping", "K8 atomic protocol",
                  "futex_wake(&key, >=1) is called exactly on the `old == MUTEX_SLEEPING` arm of the unlock swap",
                  "sys_unlock does not wake a waiter exactly when the old state was MUTEX_SLEEPING", unlock.site())
    # I6 futex ops
    for name, want in (("futex_wait", 0), ("futex_wake", 1)):
        f = F.fn(M + "linux::" + name)
        fc = [c for c in f.calls if c.name == "futex"]
        ok = len(fc) == 1
        if ok:
            opv = cval(F, f, fc[0].args[1])
            ok = opv == want and "arg:1" in f.origins(fc[0].args[0], through_calls="*") and "arg:2" in f.origins(fc[0].args[2], through_calls=())
        rep.check(ok, "futex|%s-op" % name, "K7 table",
                  "%s issues futex op %d (process-shared, no FUTEX_PRIVATE_FLAG) on the key's address with the caller's value" % (name, want),
                  "%s passes a futex op other than %d (e.g. a *_PRIVATE variant does not work across mappings of shared memory)" % (name, want), f.site())
    # I5 guard
    ctors = sorted({f.path for f in F.fns for s in f.stmts() if s.rv_kind() == "agg" and s.rv[1].get("adt", "").endswith("mutex::MutexGuard")})
    lk = F.fn(M + "Mutex::lock")
    ok = ctors == [M + "Mutex::lock"]
    if ok:
        sl = [c for c in lk.calls if c.is_(M + "Mutex::sys_lock")]
        ag = [s for s in lk.stmts() if s.rv_kind() == "agg" and s.rv[1].get("adt", "").endswith("mutex::MutexGuard")]
        ok = len(sl) == 1 and all(lk.dominates(sl[0].bb, s.bb) and sl[0].bb != s.bb or lk.dominates(sl[0].target, s.bb) for s in ag)
    rep.check(ok, "guard|built-only-after-lock", "K3 who-may-construct", "MutexGuard is constructed only in Mutex::lock, after sys_lock returned (%s)" % ctors,
              "MutexGuard can be obtained without holding the lock: %s" % ctors)
    gd = [f for f in F.fns if f.name == "drop" and f.self_adt == M + "MutexGuard"]
    rep.check(len(gd) == 1 and any(c.is_(M + "Mutex::sys_unlock") for c in gd[0].calls), "guard|drop-unlocks", "K1 pairing", "Drop for MutexGuard calls sys_unlock")
    derefs = sorted({(f.root or f.path) for f in F.fns for c in f.calls if c.is_("UnsafeCell::get") and "field:data" in f.origins(c.args[0], through_calls=()) and f.path.startswith(("aranya_fast_channels::mutex", "<aranya_fast_channels::mutex"))})
    allowed = {"<aranya_fast_channels::mutex::MutexGuard as core::ops::deref::Deref>::deref", "<aranya_fast_channels::mutex::MutexGuard as core::ops::deref::DerefMut>::deref_mut", M + "Mutex::inner_unsynchronized"}
    iu = F.fn(M + "Mutex::inner_unsynchronized")
    rep.check(set(derefs) <= allowed and iu.unsafe, "guard|data-access-sites", "K3 who-may-read",
              "the protected data is reached only through the guard's Deref/DerefMut and the unsafe inner_unsynchronized: %s" % derefs,
              "the mutex data is accessed outside the guard: %s" % sorted(set(derefs) - allowed))
    g = F.adt(M + "MutexGuard")
    rep.check(any("*const ()" in x["ty"] for x in g["variants"][0]["fields"]), "guard|not-send", "K10 type fact", "MutexGuard holds PhantomData<*const ()> (so it is !Send)")
    sends = [i for i in F.impls_of("mutex::MutexGuard", "marker::Send")]
    rep.check(not sends, "guard|no-send-impl", "K10 type fact", "no `unsafe impl Send for MutexGuard`")

    if tier == "thorough":
        try:
            F2 = Facts(CRATES, config="cas")
            rep.configs.append("cas (cas_mutex)")
            check_variant(F2, rep, "cas")
        except SystemExit as e:
            rep.anchor_missing("cas_mutex configuration does not build: %s" % e)
