"""C39 AFC messages are authenticated and opening never panics.

Decided (structural, for all inputs):
 R1 K4  no unaudited may-panic site reachable from Client::open / open_in_place /
        header parsers / state `open` implementations.
 R2 K1  on the Err outcome of do_open the output buffer is zeroized (both interfaces), and nothing shortens it
        before the zeroize (Buf::zeroize wipes only up to the current length).
 R3 K6  the sequence number returned comes from the parsed DataHeader; lengths derive from
        checked_sub / split_*_checked (no unchecked arithmetic: covered by R1 overflow class).
 R4 K6  seal cuts `dst` to plaintext.len() + OVERHEAD before splitting the header slot off its end
        (the layout `open` expects).
Not decided: AEAD authenticity (spideroak-crypto, trusted)."""
from rules.core import k4
from rules.core.facts import PASS_THROUGH

CRATES = ["aranya_fast_channels", "aranya_crypto"]

ENTRIES = [
    "aranya_fast_channels::client::Client::open",
    "aranya_fast_channels::client::Client::open_in_place",
    "aranya_fast_channels::header::DataHeader::try_parse",
    "aranya_fast_channels::header::Header::try_parse",
]

AUDIT = {
    ("<aranya_fast_channels::buf::FixedBuf as core::convert::AsMut>::as_mut", "index[[u8]]"):
        (1, "data[..len]: len <= data.len() is FixedBuf's constructor invariant, not derived from message bytes"),
    ("<aranya_fast_channels::buf::FixedBuf as core::convert::AsRef>::as_ref", "index[[u8]]"):
        (1, "data[..len]: same FixedBuf invariant"),
    ("aranya_fast_channels::buf::Buf::zeroize", "index[[u8]]"):
        (1, "self[..]: full-range index cannot fail"),
    ("aranya_fast_channels::shm::shared::ShmChan::check", "assert_eq"):
        (1, "cfg(debug_assertions) magic check of *shared memory*, independent of the ciphertext"),
    ("<aranya_crypto::apq::Topic as core::convert::AsRef>::as_ref", "index[[u8; 16]]"):
        (1, "reached only through wide CHA of AsRef; full-range index of a fixed array"),
}

AUDIT.update({
    ("aranya_crypto::afc::keys::AuthData::to_bytes", "index[[u8; 36]]"):
        (2, "b[0..4] and b[4..] on a [u8; PACKED_SIZE = 36] array: constant ranges"),
    ("aranya_crypto::afc::keys::AuthData::to_bytes", "copy_from_slice"):
        (1, "b[4..] has 32 bytes == LabelId::as_bytes().len()"),
})
BUG_AUDIT = {
    "aranya_fast_channels::header::DataHeader::try_parse": "split_first_chunk on a fixed-size array: sizes are compile-time constants",
    "aranya_fast_channels::header::Header::try_parse": "same: fixed-size array splits",
    "<aranya_fast_channels::memory::State as aranya_fast_channels::state::AfcState>::open": "mutex poisoning / internal state, not message bytes",
    "<aranya_fast_channels::shm::read::ReadState as aranya_fast_channels::state::AfcState>::open": "internal state invariants, not message bytes",
    "<aranya_fast_channels::shm::le::U32 as core::convert::TryFrom>::try_from": "usize->u32 conversion of table sizes",
    "<aranya_fast_channels::shm::le::U64 as core::convert::TryFrom>::try_from": "usize->u64 conversion",
    "aranya_fast_channels::shm::shared::ChanList::check": "debug_assert on shared-memory magic",
    "aranya_fast_channels::shm::shared::ChanListData::check": "debug_assert on shared-memory magic",
    "aranya_fast_channels::shm::shared::SharedMem::check": "debug_assert on shared-memory magic",
}


def run(F, rep, tier):
    rep.explanation = __doc__
    entries = [F.fn(e) for e in ENTRIES]
    # state `open` implementations
    opens = [f for f in F.fns if f.trait and f.trait.endswith("state::AfcState") and f.name == "open"]
    rep.floor("AfcState::open implementations", len(opens), 2)
    k4.run_k4(F, rep, entries + opens, AUDIT, BUG_AUDIT)

    # R2: zeroize on Err of do_open
    for name in ("open", "open_in_place"):
        f = F.fn("aranya_fast_channels::client::Client::" + name)
        dos = f.calls_to("Client::do_open")
        if len(dos) != 1:
            rep.anchor_missing("%s: expected exactly one do_open call, found %d" % (name, len(dos)))
            continue
        al = f.forward_aliases(dos[0].dest.local, through_calls=PASS_THROUGH)
        ok = False
        site = None
        shrunk = []
        for c in f.calls_to("result::Result::inspect_err"):
            if c.args and c.args[0].place is not None and c.args[0].place.local in al:
                for cl in f.closures_in_args(c, F):
                    zs = [cc for cc in cl.calls if cc.name == "zeroize"]
                    # Buf::zeroize wipes self[..len]: nothing may shorten the buffer before it
                    shr = [cc for cc in cl.calls if cc.name in ("truncate", "clear", "set_len", "resize", "split_off", "drain", "pop", "shrink_to", "take")
                           and not any(cl.dominates(z.bb, cc.bb) and z.bb != cc.bb for z in zs)]
                    if zs and not shr:
                        ok = True
                        site = c.site()
                    elif zs:
                        shrunk.append("%s before zeroize" % shr[0].name)
        rep.check(ok, "Client::%s|zeroize-on-err" % name, "K1 err-edge action",
                  "the Err outcome of do_open passes through inspect_err(|_| <buf>.zeroize())",
                  "Client::%s: no zeroize of the whole output buffer on the Err outcome of do_open%s" % (name, (" (%s: Buf::zeroize only wipes up to the current length, so what the AEAD "
                  "left beyond it stays in the caller's storage)" % shrunk[0]) if shrunk else ""), site or f.site())
        # the `?` after it: every Ok return is on the Continue edge of that result
        oe = f.outcome_edges(dos[0])
        rep.check("Continue" in oe and "Break" in oe, "Client::%s|do_open-result-tested" % name, "K2 guarded-by",
                  "do_open's result is tested with `?` before the Ok return", site=f.site())
        if "Continue" in oe:
            sw, tgt = oe["Continue"]
            okrets = [s for s in f.stmts() if s.rv_kind() == "agg" and s.rv[1].get("variant") == "Ok"
                      and s.place.local == 0]
            for s in okrets:
                rep.check(f.dominates(tgt, s.bb), "Client::%s|Ok-after-do_open" % name, "K2 guarded-by",
                          "Ok(..) return is dominated by the success edge of do_open", site=f.site(s.line))
            rep.floor("Client::%s Ok returns" % name, len(okrets), 1)
            # R3: seq in the Ok tuple derives from DataHeader::try_parse
            for s in okrets:
                locs, sites = f.backward_sources(s.operands()[0].place.local, through_calls=PASS_THROUGH)
                srcs = [x for k, x in sites if k == "call"]
                has_hdr = any(c.is_("DataHeader::try_parse") for c in srcs)
                has_open = any(c.is_("Client::do_open") for c in srcs)
                rep.check(has_hdr and has_open, "Client::%s|return-provenance" % name, "K6 provenance",
                          "returned (label, seq) derive from do_open's result and the parsed DataHeader", site=f.site(s.line))
    seal_layout_rule(F, rep)


def seal_layout_rule(F, rep):
    """R4: layout agreement of the copying interface. A sealed message is `ciphertext || tag || header` in
    exactly plaintext.len() + OVERHEAD bytes, and `open` takes the header from the *last* bytes of the message it
    is given. So `seal` must cut the caller's buffer down to that length before it splits the header slot off
    its end; splitting the untrimmed buffer puts the header at the end of an oversized `dst`, outside the message."""
    C = "aranya_fast_channels::client::Client::"
    f = F.fn(C + "seal")
    sp = [c for c in f.calls if c.name == "split_last_chunk_mut"]
    if len(sp) != 1:
        rep.anchor_missing("Client::seal: split_last_chunk_mut (header slot)")
        return
    og = f.origins(sp[0].args[0], through_calls=PASS_THROUGH + ("slice::get_mut", "get_mut", "Option::ok_or_else", "Index::index", "IndexMut::index_mut", "split_at_mut", "split_at_mut_checked"))
    sl, sites = f.backward_sources(sp[0].args[0].place.local, through_calls=PASS_THROUGH + ("slice::get_mut", "get_mut", "Option::ok_or_else", "IndexMut::index_mut", "split_at_mut", "split_at_mut_checked"))
    trimmed = False
    for k, c in sites:
        if k == "call" and c.name in ("get_mut", "index_mut", "split_at_mut", "split_at_mut_checked") and len(c.args) > 1:
            a = f.origins(c.args[1], through_calls="*")
            if "call:checked_add" in a and "call:len" in a:
                trimmed = True
    rep.check(trimmed and "argname:dst" in og, "seal|header-slot-at-end-of-message", "K6 provenance",
              "the header slot is split off the end of `dst[..plaintext.len() + OVERHEAD]` (the buffer is cut to the message length first)",
              "Client::seal splits the header slot off the end of the caller's whole buffer instead of `dst[..plaintext.len() + OVERHEAD]`: with an oversized `dst` the header "
              "lands outside the message and `open` reads stale bytes as the header", sp[0].site())
