"""C07 Actions are atomic.

Decided (structural, every action / every policy and storage outcome):
 R1 K2  ClientState::action: storage.write, storage.commit_heads and sink.commit are reachable
        only through the Ok edge of policy.call_action; on its Err edge sink.rollback() is
        called on every path and none of the three is reachable.
 R2 K1  sink.commit() is dominated by the success edges of storage.write AND
        storage.commit_heads (effects are committed last, after the graph is durable).
 R3 K6  the committed set is HeadSet::single(new_head) and new_head is built from the segment
        returned by that write (head_id / index / longest_max_cut); the fact cache is that
        segment's facts().
 R4 K6  the perspective handed to call_action is get_linear_perspective(collapse_heads(
        get_heads().clone())): the new head descends from every previous head.
 R5 K1  VmPolicy::call_action: every published command passes self.call_rule (success edge)
        before facts.add_command; Check and Panic exits return Err without add_command.
 R6 K3  the committed head set is replaced only by ClientState::action (on the edges of R1) and
        Transaction::commit: nothing ClientState::action runs *before* the policy's verdict
        (collapse_heads, get_linear_perspective, ...) calls Storage::commit_heads.
Not decided: equality of graph contents on failure (merge segments written by collapse_heads
before a failing action are unreachable from the committed heads; a value-level argument)."""
from rules.core import pat

CRATES = ["aranya_runtime", "aranya_policy_module"]
from rules.core.facts import PASS_THROUGH


def run(F, rep, tier):
    rep.explanation = __doc__
    f = F.fn("aranya_runtime::client::ClientState::action")
    ca = pat.one(rep, pat.trait_calls(f, "policy::Policy", "call_action"), "call_action", f)
    if not ca:
        return
    ok_e, err_e = pat.ok_edge(f, ca), pat.err_edge(f, ca)
    if not ok_e or not err_e:
        rep.anchor_missing("action: call_action result is not branched on")
        return
    wr = pat.trait_calls(f, "storage::Storage", "write")
    ch = pat.trait_calls(f, "storage::Storage", "commit_heads")
    cm = pat.trait_calls(f, "policy::Sink", "commit")
    rb = pat.trait_calls(f, "policy::Sink", "rollback")
    bg = pat.trait_calls(f, "policy::Sink", "begin")
    rep.floor("action: write/commit_heads/sink.commit sites", min(len(wr), len(ch), len(cm)), 1)
    for c in wr + ch + cm:
        rep.check(pat.only_via_edge(f, ok_e, [c.bb]), "action|%s-only-on-ok" % c.name, "K2 guarded-by",
                  "%s is reachable only through the Ok edge of call_action" % c.name,
                  "ClientState::action: %s is reachable without call_action having succeeded" % c.name, c.site())
    # rollback on the Err outcome: in the function body, or in a closure given to inspect_err/map_err on the result
    rb_closure = False
    al = f.forward_aliases(ca.dest.local, through_calls=PASS_THROUGH)
    for c in f.calls:
        if c.is_("Result::inspect_err", "Result::map_err") and c.args and c.args[0].place is not None and c.args[0].place.local in al:
            for cl in f.closures_in_args(c, F):
                if pat.trait_calls(cl, "policy::Sink", "rollback"):
                    rb_closure = True
    rep.check((rb_closure or (bool(rb) and pat.must_pass(f, err_e[1], [c.bb for c in rb]))) and not pat.unreachable_from(f, err_e[1], wr + ch + cm), "action|err-edge", "K2 err-edge action",
              "on call_action's Err edge sink.rollback() runs and write/commit_heads/sink.commit are unreachable", site=ca.site())
    rep.check(bool(bg) and all(f.dominates(b.bb, ca.bb) for b in bg), "action|begin-before-call", "K1 must-pass-through",
              "sink.begin() precedes call_action", site=ca.site())
    # R2
    for c in cm:
        w_ok = [pat.ok_edge(f, x) for x in wr]
        h_ok = [pat.ok_edge(f, x) for x in ch]
        good = all(w_ok) and all(h_ok) and any(f.dominates(e[1], c.bb) for e in w_ok) and any(f.dominates(e[1], c.bb) for e in h_ok)
        rep.check(good, "action|commit-last", "K1 must-pass-through",
                  "sink.commit() is dominated by the success edges of storage.write and storage.commit_heads",
                  "ClientState::action commits effects before the graph write / head commit has succeeded", c.site())
    # write before commit_heads
    for h in ch:
        w_ok = [pat.ok_edge(f, x) for x in wr]
        rep.check(all(w_ok) and any(f.dominates(e[1], h.bb) for e in w_ok), "action|write-before-commit_heads", "K1 must-pass-through",
                  "commit_heads is dominated by a successful storage.write", site=h.site())
    # R3
    for h in ch:
        locs, sites = f.backward_sources(h.args[1].place.local, through_calls="*", max_depth=60)
        calls = [c for k, c in sites if k == "call"]
        single = any(c.is_("HeadSet::single") for c in calls)
        from_seg = any(c.name == "head_id" for c in calls) and any(c.name == "longest_max_cut" for c in calls) and any(c is w for c in calls for w in wr)
        rep.check(single and from_seg, "action|committed-set-provenance", "K6 provenance",
                  "commit_heads gets HeadSet::single(new_head) with new_head built from the written segment (head_id, index, longest_max_cut)",
                  site=h.site())
        locs2, sites2 = f.backward_sources(h.args[2].place.local, through_calls="*", max_depth=60)
        calls2 = [c for k, c in sites2 if k == "call"]
        rep.check(any(c.name == "facts" for c in calls2) and any(c is w for c in calls2 for w in wr), "action|fact-cache-provenance", "K6 provenance",
                  "the committed fact cache is the written segment's facts()", site=h.site())
    # R4
    locs, sites = f.backward_sources(ca.args[2].place.local, through_calls="*", max_depth=80)
    calls = [c for k, c in sites if k == "call"]
    names = [c.name for c in calls]
    rep.check("get_linear_perspective" in names and "collapse_heads" in names and "get_heads" in names, "action|perspective-provenance", "K6 provenance",
              "the action's perspective is get_linear_perspective(collapse_heads(get_heads().clone()))",
              "ClientState::action: the perspective does not descend from the collapsed head set (found sources: %s)" % sorted(set(names)), ca.site())
    # the written perspective is that perspective
    for w in wr:
        l, s = f.backward_sources(w.args[1].place.local, through_calls=PASS_THROUGH, max_depth=20)
        rep.check(any(k == "call" and c.name == "get_linear_perspective" for k, c in s), "action|writes-that-perspective", "K6 provenance",
                  "storage.write receives the perspective the action ran on", site=w.site())

    # R5 VmPolicy::call_action
    g = [x for x in F.fns if x.name == "call_action" and x.trait and x.trait.endswith("policy::Policy") and x.self_adt and x.self_adt.endswith("vm_policy::VmPolicy")]
    g = pat.one(rep, g, "VmPolicy::call_action", f)
    if g:
        crs = [c for c in g.calls if c.name == "call_rule"]
        acs = pat.trait_calls(g, "storage::Perspective", "add_command")
        rep.floor("call_action: call_rule / add_command", min(len(crs), len(acs)), 1)
        for a in acs:
            oks = [pat.ok_edge(g, c) for c in crs]
            rep.check(all(oks) and any(g.dominates(e[1], a.bb) for e in oks), "vm.call_action|rule-before-add", "K1 must-pass-through",
                      "facts.add_command is dominated by the success edge of self.call_rule for the published command", site=a.site())
        # Check / Panic exits
        ers = [x for x in g.discr_switches("ExitReason")]
        n = 0
        for (b, arms, other, st) in ers:
            for v in ("Check", "Panic"):
                if v in arms:
                    n += 1
                    reg = g.reachable(arms[v])
                    bad = [a for a in acs if a.bb in reg]
                    crs_in = [c for c in g.calls if c.name == "run" and c.bb in reg]
                    errs = [s for s in g.stmts() if s.bb in g.dominated_region(arms[v]) and s.rv_kind() == "agg" and s.rv[1].get("variant") == "Err"]
                    rep.check(not bad and not crs_in and bool(errs), "vm.call_action|exit:%s" % v, "K2 err-edge action",
                              "ExitReason::%s returns Err without adding a command or resuming the action" % v, site=g.site(st.line))
        rep.floor("call_action exit-reason arms (Check, Panic)", n, 2)
    # R6
    callers = sorted({(f.root or f.path) for f in F.fns if f.crate == "aranya_runtime" and not f.derived and "/testing/" not in f.file
                      for c in f.calls if c.name == "commit_heads" and c.trait and c.trait.endswith("storage::Storage")})
    allowed = {"aranya_runtime::client::ClientState::action", "aranya_runtime::client::transaction::Transaction::commit"}
    rep.check(bool(callers) and set(callers) <= allowed and "aranya_runtime::client::ClientState::action" in callers, "commit_heads|callers", "K3 who-may-call",
              "Storage::commit_heads is called only by %s" % [c.split("::")[-1] for c in callers],
              "Storage::commit_heads is called outside ClientState::action / Transaction::commit (%s): a helper that an action runs before the policy's verdict "
              "(e.g. collapse_heads) would replace the committed heads although the action can still fail" % [c for c in callers if c not in allowed])
