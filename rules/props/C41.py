"""C41 AFC channel removal takes effect for later operations.

Decided (structural):
 R1 K1+K5 writer skeleton: each of WriteState::{add, remove, remove_all, remove_if} is
        side(write_off).lock -> mutate -> swap_offsets -> side(other).lock -> the same mutation ->
        write_off.store(other); every list mutation happens after that side's lock was taken.
 R2 K1  every removing path bumps `generation` on the side it modifies: fetch_add before swap_remove
        in both halves of remove; inside ChanListData::clear and ChanListData::remove_if.
 R3 K2  reader: in ReadState::{seal, open} the cached key is used only on the
        `cache.generation == read_list.generation.load(Acquire)` edge of the current read side;
        otherwise the channel is looked up under the list lock, a miss returns NotFound (seal also
        invalidates the context), the callback runs with the lock held, and the cache is re-tagged
        with the generation read under that same lock.
 R4 K2  in-memory state: a handle whose entry was removed yields None (Loan::get_* only on the
        get_if_shared Some edge; BiArc::drop of the Lender side flips the state) - see C44.
Not decided: linearisation of a removal against operations already in flight."""
from rules.core import afc, pat

CRATES = ["aranya_fast_channels"]
THOROUGH_CONFIGS = ["cas"]   # thorough tier: the same rules on the cas_mutex build


def run(F, rep, tier):
    rep.explanation = __doc__
    afc.writer_skeleton(F, rep, "C41")
    afc.generation_bumps(F, rep)
    fns = afc.reader_paths(F, rep)
    s = fns.get("seal")
    if s:
        # NotFound invalidates the seal context
        st = [x for x in s.stmts() if x.place is not None and x.place.proj and x.place.proj[0][0] == "d" and s.local_name(x.place.local) == "ctx" and len(x.place.proj) == 1]
        nf = [x for x in s.stmts() if x.rv_kind() == "agg" and x.rv[1].get("variant") == "NotFound"]
        rep.check(bool(st) and bool(nf) and any(s.dominates(a.bb, b.bb) or a.bb == b.bb for a in st for b in nf), "seal|notfound-invalidates-ctx", "K1 pairing",
                  "a lookup miss resets the seal context (*ctx = SealCtx(None)) before returning NotFound", site=s.site())
    # in-memory: get_mut None -> NotFound
    for name in ("seal", "open"):
        f = afc.impl_fn(F, "aranya_fast_channels::memory::State", "AfcState", name)
        gm = [c for c in f.calls if c.name == "get_mut" and "lender" in (c.path or "")]
        calls_f = [c for c in f.calls if c.name in ("call_once", "call_mut", "call")]
        ok = len(gm) == 1 and len(calls_f) == 1
        if ok:
            oe = f.outcome_edges(gm[0])
            e = oe.get("Continue") or oe.get("Some")
            ok = e is not None and f.dominates(e[1], calls_f[0].bb) and any(x.rv_kind() == "agg" and x.rv[1].get("variant") == "NotFound" for x in f.stmts())
        rep.check(ok, "memory::%s|revoked-handle-is-notfound" % name, "K2 guarded-by",
                  "the callback runs only when the loan is still shared; otherwise NotFound", site=f.site())
