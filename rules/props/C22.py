"""C22 Compiled policy code computes the language semantics.

Decided (operator level; the part of the statement whose truth is in the shape of the code):
 R1 K7  VM handler table: in RunState::step the handlers of Add/Sub/SaturatingAdd/SaturatingSub/Gt/
        Lt/Eq/Not apply exactly i64::checked_add/checked_sub/saturating_add/saturating_sub, `>`,
        `<`, Value's PartialEq and `!`; the left operand is the value popped second (pushed first),
        the right operand the value popped first; the result is what is pushed. Is/Wrap/Unwrap map
        each WrapType to its own Value shape. RestoreSP discards every value above the saved stack
        pointer (pop loop guarded by it, or a truncate at it) and keeps the return value.
 R2 K9  operator templates: for every comparison / logical / optional operator arm of
        compile_typed_expression (==, !=, >, <, >=, <=, !, &&, ||, `is Some/None`, `??`-coalescing,
        Some/None/Ok/Err constructors, if-expressions, literals) every linear emission template of
        the arm (one per path through the arm, error exits cut) is *abstractly executed* on a stack
        machine over the finite domain the operator can observe - the three orderings of two
        integers, the four boolean pairs, None/Some - and must leave exactly the value the language
        semantics defines. Operands are identified by the payload field of the matched node they
        are moved out of (field 0 = left), not by name or position. No instruction list is frozen:
        any lowering with the right table passes.
 R3 K7  builtins: define_builtins maps add/sub/saturating_add/saturating_sub to Add/Sub/
        SaturatingAdd/SaturatingSub with return types option[int]/option[int]/int/int, and
        compile_function_call compiles the arguments (in order) before the builtin's instruction.
 R4 K7  lowering keeps the operator and its operand order: lower_expression builds the thir node of
        the same name from the ast node, operand i from operand i.
 R5 K7  parser: the Pratt parser maps each operator rule to the ast node of the same name with
        (lhs, rhs) in order, `is Some`/`is None` to Is(e, true/false), and policy.pest spells the
        operator rules with the language's tokens.
 R6 K7  parser: the Pratt table's levels and associativity (`&&` and `||` on one level, ...).
Not decided: let/blocks/match/struct/field access/cast/function-call semantics on arbitrary nested
programs and i64 boundary values - these quantify over programs and values (stated in DESIGN.md)."""
import itertools
from rules.core import emit, pat
from rules.core.facts import Operand

CRATES = ["aranya_policy_compiler", "aranya_policy_ast", "aranya_policy_module", "aranya_policy_vm", "aranya_policy_lang"]
CS = "aranya_policy_compiler::compile::CompileState::"
POPS = ("ipop", "ipop_value", "ipeek", "ipeek_value", "pop", "pop_value", "peek", "peek_value")

# instruction -> (operation, left operand = which pop (1 = second popped), right operand)
VM_TABLE = {
    "Add": ("checked_add", 1, 0),
    "Sub": ("checked_sub", 1, 0),
    "SaturatingAdd": ("saturating_add", 1, 0),
    "SaturatingSub": ("saturating_sub", 1, 0),
    "Gt": ("gt", 1, 0),
    "Lt": ("lt", 1, 0),
    "Eq": ("eq", 1, 0),
}
OPS_CALL = {"checked_add", "checked_sub", "checked_mul", "checked_div", "saturating_add", "saturating_sub", "saturating_mul",
            "wrapping_add", "wrapping_sub", "overflowing_add", "overflowing_sub", "gt", "lt", "ge", "le", "eq", "ne", "cmp", "partial_cmp",
            "add", "sub", "mul", "div", "rem", "max", "min"}
OPS_BIN = {"Gt": "gt", "Lt": "lt", "Ge": "ge", "Le": "le", "Eq": "eq", "Ne": "ne", "Add": "add", "Sub": "sub", "AddWithOverflow": "add", "SubWithOverflow": "sub",
           "AddUnchecked": "add", "SubUnchecked": "sub", "Mul": "mul", "MulWithOverflow": "mul", "Cmp": "cmp"}


def pops_feeding(f, local, popcalls):
    """indices (in pop order) of the pop calls the local's value derives from"""
    sl, sites = f.backward_sources(local, through_calls=("Try::branch",))
    out = set()
    for k, s in sites:
        if k == "call":
            for i, p in enumerate(popcalls):
                if s is p or (s.bb == p.bb):
                    out.add(i)
    return out


def vm_rules(F, rep):
    step = F.fn("aranya_policy_vm::machine::RunState::step")
    sws = step.discr_switches("instructions::Instruction")
    if not sws:
        rep.anchor_missing("RunState::step dispatch on Instruction")
        return
    outer = step.outer_switch(sws)
    n = 0
    for ins, (want, li, ri) in VM_TABLE.items():
        key = "vm|%s" % ins
        if ins not in outer[1]:
            rep.violation(key, "K7 table", "RunState::step has no handler arm for Instruction::%s" % ins, step.site())
            continue
        oreg = step.dominated_region(outer[1][ins])
        inner = [x for x in sws if x[0] != outer[0] and ins in x[1] and x[0] in oreg]
        reg = step.dominated_region(inner[0][1][ins]) if inner else oreg
        pops = [c for c in step.calls if c.bb in oreg and c.name in POPS]
        pops.sort(key=lambda c: sum(1 for d in pops if step.dominates(d.bb, c.bb)))
        ops = []
        for c in step.calls:
            if c.bb in reg and c.name in OPS_CALL and not any("format" in m for m in c.macs):
                ops.append((c.name, c.args, c.dest, c.site()))
        for s in step.stmts():
            if s.bb in reg and s.rv_kind() == "bin" and s.rv[1] in OPS_BIN and not s.exp:
                ops.append((OPS_BIN[s.rv[1]], s.operands(), s.place, "%s:%d" % (step.file, s.line)))
        n += 1
        if len(pops) != 2:
            rep.violation(key, "K7 table", "handler of %s pops %d operands, expected 2" % (ins, len(pops)), step.site())
            continue
        if len(ops) != 1:
            rep.violation(key, "K7 table", "handler of %s applies %s; expected exactly one operation (%s)" % (ins, [o[0] for o in ops] or "no operation", want), step.site())
            continue
        name, args, dest, site = ops[0]
        lf = pops_feeding(step, args[0].place.local, pops) if args[0].place is not None else set()
        rf = pops_feeding(step, args[1].place.local, pops) if args[1].place is not None else set()
        rep.check(name == want, key + "|operation", "K7 table", "Instruction::%s applies `%s`" % (ins, want),
                  "the VM handler of Instruction::%s applies `%s`, the instruction's meaning is `%s`" % (ins, name, want), site)
        rep.check(lf == {li} and rf == {ri}, key + "|operand-order", "K7 table",
                  "left operand = the value popped second, right operand = the value popped first",
                  "the VM handler of Instruction::%s takes its left operand from pop %s and its right operand from pop %s (pops are numbered in execution order; the left operand was pushed first, so it is popped second)" % (ins, sorted(lf), sorted(rf)), site)
        # the result is what is pushed
        push = [c for c in step.calls if c.bb in oreg and c.name in ("ipush", "push")]
        okp = False
        for p in push:
            a = p.args[1]
            if a.place is not None:
                sl, sites = step.backward_sources(a.place.local, through_calls=())
                if dest is not None and dest.local in sl:
                    okp = True
        rep.check(okp, key + "|result-pushed", "K7 table", "the operation's result is pushed", "the VM handler of Instruction::%s does not push the operation's result" % ins, site)
    # Not
    key = "vm|Not"
    if "Not" in outer[1]:
        reg = step.dominated_region(outer[1]["Not"])
        peeks = [c for c in step.calls if c.bb in reg and c.name in POPS]
        nots = [s for s in step.stmts() if s.bb in reg and s.rv_kind() == "un" and s.rv[1] == "Not"]
        ok = len(peeks) == 1 and len(nots) == 1
        if ok:
            s = nots[0]
            o = s.operands()[0]
            src_ok = o.place is not None and pops_feeding(step, o.place.local, peeks) == {0}
            if peeks[0].name.startswith(("ipeek", "peek")):
                dst_ok = bool(s.place.proj) and pops_feeding(step, s.place.local, peeks) == {0}
            else:
                push = [c for c in step.calls if c.bb in reg and c.name in ("ipush", "push")]
                dst_ok = any(a.place is not None and s.place.local in step.backward_sources(a.place.local, through_calls=())[0] for p in push for a in p.args[1:])
            ok = src_ok and dst_ok
        n += 1
        rep.check(ok, key, "K7 table", "Instruction::Not replaces the top of the stack by its logical negation",
                  "the VM handler of Instruction::Not does not negate the top of the stack in place", step.site())
    else:
        rep.violation(key, "K7 table", "RunState::step has no handler arm for Instruction::Not", step.site())
    # Is / Wrap / Unwrap: WrapType -> Value shape
    want = {"Some": ("Option", "Some"), "Ok": ("Result", "Ok"), "Err": ("Result", "Err")}
    for ins in ("Wrap", "Is", "Unwrap"):
        key = "vm|%s" % ins
        if ins not in outer[1]:
            rep.violation(key, "K7 table", "RunState::step has no handler arm for Instruction::%s" % ins, step.site())
            continue
        oreg = step.dominated_region(outer[1][ins])
        wsw = [x for x in step.discr_switches("instructions::WrapType") if x[0] in oreg]
        n += 1
        if not wsw:
            rep.violation(key, "K7 table", "the handler of %s does not dispatch on its WrapType" % ins, step.site())
            continue
        wsw = step.outer_switch(wsw)
        for w, (adt, var) in want.items():
            t = wsw[1].get(w, wsw[2])
            r = step.dominated_region(t) if t is not None else set()
            if ins == "Wrap":
                found = set()
                for s in step.stmts():
                    if s.bb in r and s.rv_kind() == "agg":
                        a = s.rv[1].get("adt", "")
                        if a.endswith("data::Value"):
                            found.add(("V", s.rv[1].get("variant")))
                        if a.endswith("result::Result") or a.endswith("option::Option"):
                            found.add(("I", s.rv[1].get("variant")))
                ok = ("V", adt) in found and ("I", var) in found and not {x for x in found if x[0] == "I"} - {("I", var)}
            else:
                # the arm tests Value::<adt> then the inner <var>
                vs = [x for x in step.discr_switches("data::Value") if x[0] in r or x[0] == t]
                inner = [x for x in step.discr_switches("result::Result") + step.discr_switches("option::Option") if x[0] in r]
                ok = any(adt in x[1] for x in vs) and any(var in x[1] and x[1][var] != x[2] for x in inner)
                if ok:
                    # the block reached with (adt, var) must not be shared with the opposite inner variant
                    ok = all(len(set(x[1].values()) | {x[2]}) >= 2 for x in inner if var in x[1])
            rep.check(ok, key + "|" + w, "K7 table", "%s(WrapType::%s) works on Value::%s(%s(_))" % (ins, w, adt, var),
                      "the VM handler of %s(WrapType::%s) does not use Value::%s(%s(_))" % (ins, w, adt, var), step.site())
    rep.floor("VM handlers checked", n, 11)


# ---------------------------------------------------------------------------------------------
# abstract stack machine

class Stop(Exception):
    pass


def int_rel(x, y, rel):
    """ordering of two symbolic ints under scenario rel = ordering of a relative to b"""
    if x == y:
        return "="
    if (x, y) == ("a", "b"):
        return rel
    return {"<": ">", ">": "<", "=": "="}[rel]


def run_template(path, env, rel=None):
    prog = list(path)
    labels = {}
    for i, e in enumerate(prog):
        if e.kind == "label":
            for s in e.lsrc:
                labels[s] = i
    stack = []
    pc = 0
    steps = 0

    def pop():
        if not stack:
            raise Stop("stack underflow")
        return stack.pop()

    def veq(x, y):
        if x[0] == "int" and y[0] == "int":
            return int_rel(x[1], y[1], rel) == "="
        return x == y

    while pc < len(prog):
        steps += 1
        if steps > 500:
            raise Stop("does not terminate")
        e = prog[pc]
        pc += 1
        if e.kind in ("new", "label"):
            continue
        if e.kind == "compile":
            ks = [k for k in env if k in e.fields]
            if len(ks) != 1:
                raise Stop("compiles an operand the rule cannot identify (%s)" % sorted(e.fields))
            stack.append(env[ks[0]])
            continue
        if e.kind != "emit":
            raise Stop("unexpected event %s" % e.kind)
        v = e.variant
        if v == "Const":
            p = e.payload
            if p and p[1] == "Bool" and p[2] in ("true", "false"):
                stack.append(("bool", p[2] == "true"))
            elif p and p[1] == "NONE":
                stack.append(("opt", None))
            elif p and p[1] in ("Int", "String", "Unit", "Bool", "Enum"):
                stack.append(("lit", p[1]))
            else:
                raise Stop("Const with a payload the rule does not model (%s)" % (p,))
        elif v in ("Gt", "Lt"):
            b = pop(); a = pop()
            if a[0] != "int" or b[0] != "int":
                raise Stop("%s applied to non-integers" % v)
            r = int_rel(a[1], b[1], rel)
            stack.append(("bool", r == (">" if v == "Gt" else "<")))
        elif v == "Eq":
            b = pop(); a = pop()
            stack.append(("bool", veq(a, b)))
        elif v == "Not":
            a = pop()
            if a[0] != "bool":
                raise Stop("Not applied to a non-boolean")
            stack.append(("bool", not a[1]))
        elif v == "Dup":
            a = pop(); stack.append(a); stack.append(a)
        elif v == "Pop":
            pop()
        elif v == "Is":
            a = pop(); w = e.payload[1] if e.payload else None
            if w == "Some":
                stack.append(("bool", a[0] == "opt" and a[1] is not None))
            elif w in ("Ok", "Err"):
                stack.append(("bool", a[0] == "res" and a[1] == w))
            else:
                raise Stop("Is with unknown wrap type")
        elif v == "Wrap":
            a = pop(); w = e.payload[1] if e.payload else None
            if w == "Some":
                stack.append(("opt", a))
            elif w in ("Ok", "Err"):
                stack.append(("res", w, a))
            else:
                raise Stop("Wrap with unknown wrap type")
        elif v == "Unwrap":
            a = pop(); w = e.payload[1] if e.payload else None
            if w == "Some" and a[0] == "opt" and a[1] is not None:
                stack.append(a[1])
            elif w in ("Ok", "Err") and a[0] == "res" and a[1] == w:
                stack.append(a[2])
            else:
                raise Stop("Unwrap(%s) applied to %s: the VM stops with a type error" % (w, a[0]))
        elif v in ("Branch", "Jump"):
            if v == "Branch":
                c = pop()
                if c[0] != "bool":
                    raise Stop("Branch on a non-boolean")
                if not c[1]:
                    continue
            tg = [labels[s] for s in e.lsrc if s in labels]
            if len(tg) != 1:
                raise Stop("%s to a label that is not defined in the template" % v)
            pc = tg[0]
        elif v == "Query":
            pop()
            stack.append(env["query"])
        else:
            raise Stop("emits Instruction::%s, which the rule's stack model does not cover" % v)
    return stack


B = [("bool", False), ("bool", True)]
SV = ("sym", "v")
SW = ("sym", "w")


def scenarios(op):
    """[(env, rel, conds, expected)] for a language operator"""
    out = []
    cmpx = {"Equal": "=", "NotEqual": "<>", "GreaterThan": ">", "LessThan": "<", "GreaterThanOrEqual": ">=", "LessThanOrEqual": "<="}
    if op in cmpx:
        for rel in "<=>":
            out.append(({(op, 0): ("int", "a"), (op, 1): ("int", "b")}, rel, {}, ("bool", rel in cmpx[op])))
        if op in ("Equal", "NotEqual"):
            for x, y in ((SV, SV), (SV, SW), (("opt", None), ("opt", SV)), (("bool", True), ("bool", True))):
                out.append(({(op, 0): x, (op, 1): y}, None, {}, ("bool", (x == y) == (op == "Equal"))))
    elif op == "Not":
        for x in B:
            out.append(({(op, 0): x}, None, {}, ("bool", not x[1])))
    elif op in ("And", "Or"):
        for x, y in itertools.product(B, B):
            out.append(({(op, 0): x, (op, 1): y}, None, {}, ("bool", (x[1] and y[1]) if op == "And" else (x[1] or y[1]))))
    elif op == "Is":
        for x in (("opt", None), ("opt", SV)):
            for flag in (False, True):
                out.append(({(op, 0): x}, None, {(op, 1): flag}, ("bool", (x[1] is not None) == flag)))
    elif op == "Coalesce":
        out.append(({(op, 0): ("opt", None), (op, 1): SW}, None, {}, SW))
        out.append(({(op, 0): ("opt", SV), (op, 1): SW}, None, {}, SV))
    elif op == "Ok":
        out.append(({(op, 0): SV}, None, {}, ("res", "Ok", SV)))
    elif op == "Err":
        out.append(({(op, 0): SV}, None, {}, ("res", "Err", SV)))
    elif op == "Optional":
        out.append(({("Some", 0): SV}, None, {"discr": "Some"}, ("opt", SV)))
        out.append(({}, None, {"discr": "None"}, ("opt", None)))
    elif op == "If":
        for c in B:
            out.append(({(op, 0): c, (op, 1): SV, (op, 2): SW}, None, {}, SV if c[1] else SW))
    elif op in ("Int", "Bool", "String", "Unit"):
        out.append(({}, None, {}, ("lit", op)))
    return out


def conds_match(tconds, sconds):
    """does the template's path condition admit the scenario?"""
    for k, v in tconds.items():
        if isinstance(k, str) and k.startswith("discr:"):
            if "discr" in sconds and sconds["discr"] != v:
                return False
        elif k in sconds and sconds[k] != v:
            return False
    return True


OPERATORS = ["Equal", "NotEqual", "GreaterThan", "LessThan", "GreaterThanOrEqual", "LessThanOrEqual", "Not", "And", "Or", "Is",
             "Coalesce", "Ok", "Err", "Optional", "Int", "Bool", "String", "Unit"]


def show(v):
    if v[0] == "bool":
        return "true" if v[1] else "false"
    if v[0] == "opt":
        return "None" if v[1] is None else "Some(%s)" % show(v[1])
    if v[0] == "res":
        return "%s(%s)" % (v[1], show(v[2]))
    if v[0] == "int":
        return v[1]
    return str(v[1])


def describe(op, env, rel, sconds):
    parts = []
    for k in sorted(env, key=str):
        parts.append("operand %d = %s" % (k[1], show(env[k])))
    if rel:
        parts.append("with a %s b" % rel)
    for k, v in sconds.items():
        if isinstance(k, tuple):
            parts.append("flag (field %d) = %s" % (k[1], v))
    return ", ".join(parts)


def compile_rules(F, rep):
    f = F.fn(CS + "compile_typed_expression")
    sws = f.discr_switches("thir::ExprKind")
    if not sws:
        rep.anchor_missing("compile_typed_expression dispatch on thir::ExprKind")
        return
    sk = f.outer_switch(sws)
    cut = emit.err_edges(f)
    arms = {v: t for v, t in sk[1].items() if t != sk[2]}
    isw = f.discr_switches("thir::InternalFunction")
    if isw:
        isk = f.outer_switch(isw)
        if "If" in isk[1]:
            arms["If"] = isk[1]["If"]
    n_t = n_s = 0
    for op in OPERATORS + ["If"]:
        key = "template|%s" % op
        if op not in arms:
            rep.violation(key, "K9 emission template", "compile_typed_expression has no arm for %s" % op, f.site())
            continue
        reg = f.dominated_region(arms[op])
        ts = emit.templates(F, f, arms[op], reg, cut, field_conds=True)
        if not ts:
            rep.violation(key, "K9 emission template", "the arm for %s is not a finite set of linear emission templates (loop in the arm)" % op, f.site())
            continue
        n_t += len(ts)
        for env, rel, sconds, expected in scenarios(op):
            cands = [(c, p) for c, p in ts if conds_match(c, sconds)]
            n_s += 1
            skey = "%s|%s" % (key, describe(op, env, rel, sconds) or "-")
            if not cands:
                rep.violation(skey, "K9 emission template", "no emission template of the %s arm applies to this case" % op, f.site())
                continue
            for c, p in cands:
                try:
                    st = run_template(p, env, rel)
                    ok = st == [expected]
                    why = "leaves %s on the stack, the language defines %s" % ("[" + ", ".join(show(x) for x in st) + "]", show(expected))
                except Stop as ex:
                    ok = False
                    why = str(ex)
                rep.check(ok, skey, "K9 emission template", "the emitted code leaves exactly %s" % show(expected),
                          "the code emitted for thir::ExprKind::%s, run on %s: %s" % (op, describe(op, env, rel, sconds) or "its operands", why), f.site())
    rep.floor("operator templates executed", n_t, 20)
    rep.floor("operator scenarios checked", n_s, 45)


def run(F, rep, tier):
    rep.explanation = __doc__
    vm_rules(F, rep)
    restore_sp_rule(F, rep)
    compile_rules(F, rep)
    lower_rules(F, rep)
    builtin_rules(F, rep)
    parser_rules(F, rep, F.repo)
    precedence_rules(F, rep)


def lower_rules(F, rep):
    f = F.fn("aranya_policy_compiler::compile::lower::lower_expression")
    sws = f.discr_switches("ast::ExprKind")
    if not sws:
        rep.anchor_missing("lower_expression dispatch on ast::ExprKind")
        return
    # (a) constructor table: `match kind { ExprKind::X(..) => thir::ExprKind::X, .. }`
    ctor_local = None
    rows = []
    for b, arms, other, st in sws:
        for v, t in arms.items():
            if t == other:
                continue
            for s in f.stmts(t):
                if s.rv_kind() == "cast" and not s.place.proj:
                    o = Operand(s.rv[2])
                    dbg = str(o.const.get("dbg")) if o.const is not None else ""
                    if "thir::ExprKind::" in dbg:
                        rows.append((v, dbg.split("thir::ExprKind::")[-1].split(" ")[0].split("<")[0], s))
                        ctor_local = s.place.local
    rep.floor("rows of the ast->thir binary constructor table", len(rows), 8)
    for v, c, s in rows:
        rep.check(v == c, "lower|ctor|%s" % v, "K7 table", "ast::ExprKind::%s is lowered to thir::ExprKind::%s" % (v, c),
                  "lower_expression lowers ast::ExprKind::%s to thir::ExprKind::%s: the operator changes meaning" % (v, c), "%s:%d" % (f.file, s.line))
    # (b) operand order: operand i of the thir node comes from lowering operand i of the ast node
    THROUGH = ("Box::new", "Try::branch", "lower_expression", "Result::map_err")
    nodes = []
    for s in f.stmts():
        if s.rv_kind() == "agg" and (s.rv[1].get("adt", "").endswith("thir::ExprKind") or s.rv[1].get("adt", "").endswith("thir::InternalFunction")):
            nodes.append((s.rv[1].get("variant"), s.operands(), "%s:%d" % (f.file, s.line)))
    for c in f.calls:
        if c.path is None and c.f.place is not None and ctor_local is not None and ctor_local in f.backward_sources(c.f.place.local)[0]:
            nodes.append(("<binary operator>", c.args, c.site()))
    n = 0
    for var, ops, site in nodes:
        idx = []
        for i, o in enumerate(ops):
            if o.place is None:
                idx.append(None)
                continue
            sl, sites = f.backward_sources(o.place.local, through_calls=("Box::new", "Try::branch"))
            lows = [s for k, s in sites if k == "call" and s.name == "lower_expression"]
            if len(lows) != 1:
                idx.append(None)
                continue
            a = lows[0].args[1]
            vf = emit.variant_fields(f, a.place.local) if a.place is not None else set()
            if var in {x[0] for x in vf}:
                vf = {x for x in vf if x[0] == var}
            idx.append({x[1] for x in vf} if vf else None)
        if sum(1 for x in idx if x) < 2:
            continue
        n += 1
        got = [sorted(x) if x else None for x in idx]
        ok = all(x is None or x == {i} for i, x in enumerate(idx))
        rep.check(ok, "lower|operand-order|%s" % var, "K6 provenance", "operand i of thir %s is the lowering of operand i of the ast node" % var,
                  "lower_expression builds thir %s with its operands out of order: thir operands take ast operands %s" % (var, got), site)
    rep.floor("multi-operand thir nodes with operand order checked", n, 2)


BUILTINS = {"add": ("Add", "Optional"), "sub": ("Sub", "Optional"), "saturating_add": ("SaturatingAdd", "Int"), "saturating_sub": ("SaturatingSub", "Int")}


def builtin_rules(F, rep):
    f = F.fn(CS + "define_builtins")
    found = {}
    for c in f.calls:
        if c.name != "define_builtin":
            continue
        sl, sites = f.backward_sources(c.args[1].place.local, through_calls=("__from_literal",)) if c.args[1].place is not None else (set(), [])
        names = set()
        for k, s in sites:
            if k == "call" and s.name == "__from_literal" and s.args and s.args[0].const is not None:
                names.add(str(s.args[0].const.get("dbg")).strip('"'))
        # the function's own name is the one stored in tuple field 0
        nm = None
        for k, s in sites:
            if k == "stmt" and s.rv_kind() == "agg" and s.rv[1].get("k") == "tuple":
                o = s.operands()[0]
                if o.place is not None:
                    for k2, s2 in f.backward_sources(o.place.local, through_calls=())[1]:
                        if k2 == "call" and s2.name == "__from_literal":
                            nm = str(s2.args[0].const.get("dbg")).strip('"')
        # return type: FunctionColor::Pure(VType{inner: TypeKind::X})
        ret = None
        for k, s in sites:
            if k == "stmt" and s.rv_kind() == "agg" and s.rv[1].get("adt", "").endswith("FunctionColor"):
                o = s.operands()[0]
                for k2, s2 in f.backward_sources(o.place.local, through_calls=())[1] if o.place is not None else []:
                    if k2 == "stmt" and s2.rv_kind() == "agg" and s2.rv[1].get("adt", "").endswith("span::WithSpan"):
                        o2 = s2.operands()[0]
                        for k3, s3 in f.defs().get(o2.place.local, []) if o2.place is not None else []:
                            if k3 == "stmt" and s3.rv_kind() == "agg" and s3.rv[1].get("adt", "").endswith("ast::TypeKind"):
                                ret = s3.rv[1].get("variant")
                        break
        # closure
        ins = None
        sl2, sites2 = f.backward_sources(c.args[2].place.local, through_calls=()) if c.args[2].place is not None else (set(), [])
        for k, s in sites2:
            if k == "stmt" and s.rv_kind() == "agg" and s.rv[1].get("k") == "closure":
                from rules.core.facts import strip_generics
                cl = F.fn_exact(strip_generics(s.rv[1]["def"]))
                if cl:
                    evs = [e for e in emit.events(F, cl, None) if e.kind == "emit"]
                    ins = [e.variant for e in evs]
        found[nm] = (ins, ret, c.site())
    rep.floor("builtins defined", len(found), 4)
    for nm, (wi, wr) in BUILTINS.items():
        got = found.get(nm)
        rep.check(got is not None and got[0] == [wi] and got[1] == wr, "builtin|%s" % nm, "K7 table",
                  "builtin %s emits exactly Instruction::%s and is typed %s" % (nm, wi, "option[int]" if wr == "Optional" else "int"),
                  "builtin `%s` %s" % (nm, "is not defined" if got is None else "emits %s with return type %s; the language defines %s returning %s" % (got[0], got[1], wi, wr)),
                  got[2] if got else f.site())
    # arguments are compiled, in order, before the builtin's instruction / the Call
    g = F.fn(CS + "compile_function_call")
    comp = [c for c in g.calls if c.name == "compile_typed_expression"]
    tail = [c for c in g.calls if (c.path is None and c.f.place is not None) or c.name == "append_instruction"]
    ok = len(comp) == 1 and len(tail) >= 2 and all(comp[0].bb not in g.reachable(t.bb) for t in tail) and not any(c.name in ("rev", "next_back", "pop") for c in g.calls)
    if ok:
        # the loop runs to exhaustion before the tail: tail blocks are reached only through the iterator's None edge
        nx = [c for c in g.calls if c.is_("Iterator::next")]
        ok = len(nx) == 1
        if ok:
            oe = g.outcome_edges(nx[0])
            ok = "None" in oe and all(g.dominates(oe["None"][1], t.bb) for t in tail)
            a = comp[0].args[1]
            ok = ok and a.place is not None and "field:arguments" in g.origins(a, through_calls=("IntoIterator::into_iter", "Iterator::next"))
    rep.check(ok, "call|arguments-first-in-order", "K1 must-pass-through",
              "compile_function_call compiles fc.arguments front to back, and only then emits the builtin's instruction or the Call",
              "compile_function_call does not compile all arguments, in order, before the builtin instruction / Call", g.site())


def camel(s):
    return "".join(p.capitalize() for p in s.split("_"))


TOKENS = {"add": "+", "subtract": "-", "greater_than": ">", "less_than": "<", "greater_than_or_equal": ">=", "less_than_or_equal": "<=",
          "equal": "==", "not_equal": "!=", "and": "&&", "or": "||", "not": "!", "some": "Some", "none": "None"}
INFIX = ["and", "or", "coalesce", "equal", "not_equal", "greater_than", "less_than", "greater_than_or_equal", "less_than_or_equal"]


def const_bool_defs(f, local, depth=6):
    """{block: bool} for the constant stores that reach a bool local"""
    out = {}
    work = [local]
    seen = set()
    while work and depth:
        depth -= 1
        l = work.pop()
        if l in seen:
            continue
        seen.add(l)
        for k, s in f.defs().get(l, []):
            if k == "stmt" and s.rv_kind() == "use":
                o = Operand(s.rv[1])
                if o.const is not None and str(o.const.get("dbg")) in ("true", "false"):
                    out[s.bb] = str(o.const.get("dbg")) == "true"
                elif o.place is not None:
                    work.append(o.place.local)
    return out


def parser_rules(F, rep, repo):
    import os, re
    cls = [f for f in F.fns if f.crate == "aranya_policy_lang" and f.kind == "Closure" and "ChunkParser::parse_expression::" in f.path]
    infix = prefix = postfix = None
    for f in cls:
        for x in f.discr_switches("parse::Rule"):
            if "greater_than" in x[1]:
                infix = (f, x)
            elif "not" in x[1] and len(x[1]) <= 2:
                prefix = (f, x)
            elif "is" in x[1]:
                postfix = (f, x)
    if not infix or not prefix or not postfix:
        rep.anchor_missing("Pratt-parser infix/prefix/postfix closures of parse_expression (dispatch on Rule)")
        return
    f, sw = infix
    n = 0
    for r in INFIX:
        key = "parse|infix|%s" % r
        if r not in sw[1] or sw[1][r] == sw[2]:
            rep.violation(key, "K7 table", "the infix operator `%s` has no arm in parse_expression" % r, f.site())
            continue
        reg = f.dominated_region(sw[1][r])
        ag = [s for s in f.stmts() if s.bb in reg and s.rv_kind() == "agg" and s.rv[1].get("adt", "").endswith("ast::ExprKind")]
        n += 1
        if len(ag) != 1:
            rep.violation(key, "K7 table", "the arm of infix operator `%s` builds %d ExprKind nodes" % (r, len(ag)), f.site())
            continue
        s = ag[0]
        ops = s.operands()
        o0 = f.origins(ops[0], through_calls=("Box::new", "Try::branch")) if len(ops) > 0 else set()
        o1 = f.origins(ops[1], through_calls=("Box::new", "Try::branch")) if len(ops) > 1 else set()
        rep.check(s.rv[1].get("variant") == camel(r), key + "|node", "K7 table", "Rule::%s builds ExprKind::%s" % (r, camel(r)),
                  "the parser maps the operator rule `%s` to ExprKind::%s" % (r, s.rv[1].get("variant")), "%s:%d" % (f.file, s.line))
        rep.check("arg:2" in o0 and "arg:4" not in o0 and "arg:4" in o1 and "arg:2" not in o1, key + "|operands", "K6 provenance",
                  "operand 0 is the left-hand side, operand 1 the right-hand side",
                  "the parser builds ExprKind::%s with its operands swapped or duplicated" % s.rv[1].get("variant"), "%s:%d" % (f.file, s.line))
    rep.floor("infix operators checked", n, 9)
    f, sw = prefix
    reg = f.dominated_region(sw[1]["not"])
    ag = [s for s in f.stmts() if s.bb in reg and s.rv_kind() == "agg" and s.rv[1].get("adt", "").endswith("ast::ExprKind")]
    rep.check(len(ag) == 1 and ag[0].rv[1].get("variant") == "Not", "parse|prefix|not", "K7 table", "Rule::not builds ExprKind::Not", site=f.site())
    f, sw = postfix
    reg = f.dominated_region(sw[1]["is"])
    ag = [s for s in f.stmts() if s.bb in reg and s.rv_kind() == "agg" and s.rv[1].get("variant") == "Is" and s.rv[1].get("adt", "").endswith("ast::ExprKind")]
    ok = False
    if len(ag) == 1:
        o = ag[0].operands()[1]
        sn = [x for x in f.discr_switches("parse::Rule") if "some" in x[1] and "none" in x[1]]
        if o.place is not None and sn:
            cb = const_bool_defs(f, o.place.local)
            sreg = f.dominated_region(sn[0][1]["some"])
            nreg = f.dominated_region(sn[0][1]["none"])
            tv = {v for b, v in cb.items() if b in sreg}
            fv = {v for b, v in cb.items() if b in nreg}
            ok = tv == {True} and fv == {False}
    rep.check(ok, "parse|postfix|is-flag", "K7 table", "`is Some` builds Is(e, true), `is None` builds Is(e, false)",
              "the parser's `is Some` / `is None` flag is inverted or constant", f.site())
    # the grammar's tokens
    pest = os.path.join(repo, "crates/aranya-policy-lang/src/lang/parse/policy.pest")
    try:
        txt = open(pest).read()
    except OSError:
        rep.anchor_missing("policy.pest grammar")
        return
    for r, tok in TOKENS.items():
        m = re.search(r"^%s\s*=\s*[@_$!]?\{\s*\"([^\"]*)\"\s*\}" % re.escape(r), txt, re.M)
        rep.check(m is not None and m.group(1) == tok, "grammar|%s" % r, "K7 table", "grammar rule %s is the token `%s`" % (r, tok),
                  "policy.pest defines rule `%s` as %s, the language writes this operator `%s`" % (r, ("`%s`" % m.group(1)) if m else "something other than a single token", tok),
                  "crates/aranya-policy-lang/src/lang/parse/policy.pest")


def restore_sp_rule(F, rep):
    """RestoreSP implements `return e` inside nested expressions: everything the abandoned expressions had
    pushed above the saved stack pointer is discarded and only the return value is kept. Structurally: the
    handler shrinks the stack down to the saved pointer - a pop loop guarded by `len > saved_sp`, or a
    truncate/drain/split_off at saved_sp - and pushes the return value back. Removing a single element is not
    enough when two or more temporaries are pending."""
    step = F.fn("aranya_policy_vm::machine::RunState::step")
    sws = step.discr_switches("instructions::Instruction")
    outer = step.outer_switch(sws) if sws else None
    if not outer or "RestoreSP" not in outer[1]:
        rep.anchor_missing("RunState::step arm for RestoreSP")
        return
    reg = step.dominated_region(outer[1]["RestoreSP"])
    saved = [c for c in step.calls if c.bb in reg and c.name == "pop" and "field:call_state" in step.origins(c.args[0], through_calls=())]
    # (a) bulk shrink at saved_sp
    bulk = [c for c in step.calls if c.bb in reg and c.name in ("truncate", "drain", "split_off", "resize_with") and "field:stack" in step.origins(c.args[0], through_calls=("Deref::deref", "DerefMut::deref_mut"))
            and len(c.args) > 1 and "field:call_state" in step.origins(c.args[1], through_calls="*")]
    # (b) pop loop: a value pop on the stack that can reach itself again, guarded by a len-vs-saved comparison inside the cycle
    loop = False
    for c in step.calls:
        if c.bb in reg and c.name in ("pop_value", "pop", "ipop_value") and "field:stack" in step.origins(c.args[0], through_calls=()):
            cyc = step.reachable_after(c.bb) & reg
            if c.bb in cyc:
                for x in step.cmp_switches():
                    if x["bb"] in cyc and x["bb"] in reg:
                        oa, ob = step.origins(x["a"], through_calls="*"), step.origins(x["b"], through_calls="*")
                        if ("call:len" in oa | ob) and ("field:call_state" in oa | ob):
                            loop = True
    single = [c for c in step.calls if c.bb in reg and c.name in ("swap_remove", "remove") and "field:stack" in step.origins(c.args[0], through_calls=("Deref::deref", "DerefMut::deref_mut"))]
    rep.check(bool(saved) and (bool(bulk) or loop) and not single, "vm|RestoreSP|discards-all-temporaries", "K7 table",
              "RestoreSP shrinks the stack down to the saved stack pointer (%s) and keeps the return value" % ("bulk shrink" if bulk else "pop loop guarded by len > saved_sp"),
              "the VM handler of RestoreSP does not discard every value above the saved stack pointer (no pop loop guarded by the saved pointer, no truncate at it%s): a `return` "
              "with two or more pending temporaries hands the caller one of the abandoned arguments instead of the return value" % ("; it removes a single element with %s" % single[0].name if single else ""), step.site())


def precedence_rules(F, rep):
    """R6: grouping of unparenthesised operators is part of what `a || b && c` means. The Pratt parser's levels
    (one `.op(..)` per level, loosest first) must put `&&` and `||` on one level (the language gives them equal
    priority, left-associative), `==`/`!=` on one, the four relational operators on one, in the order
    coalesce < and/or < equality < relational < prefix `!` < postfix; coalescing is right-associative, the other
    infix operators left-associative."""
    f = F.fn("aranya_policy_lang::lang::parse::get_pratt_parser")
    ops = [c for c in f.calls if c.name == "op" and c.path and "pratt_parser" in c.path]
    ops.sort(key=lambda c: sum(1 for d in ops if f.dominates(d.bb, c.bb)))
    level = {}
    assoc = {}
    for i, c in enumerate(ops):
        sl, sites = f.backward_sources(c.args[1].place.local, through_calls="*")
        for k, s in sites:
            if k == "call" and s.name in ("infix", "prefix", "postfix") and s.args and s.args[0].place is not None:
                rule = None
                for k2, s2 in f.defs().get(s.args[0].place.local, []):
                    if k2 == "stmt" and s2.rv_kind() == "agg" and s2.rv[1].get("adt", "").endswith("parse::Rule"):
                        rule = s2.rv[1].get("variant")
                if rule:
                    level[rule] = i
                    if s.name == "infix" and len(s.args) > 1 and s.args[1].place is not None:
                        for k2, s2 in f.defs().get(s.args[1].place.local, []):
                            if k2 == "stmt" and s2.rv_kind() == "agg" and s2.rv[1].get("adt", "").endswith("Assoc"):
                                assoc[rule] = s2.rv[1].get("variant")
    rep.floor("operators in the Pratt table", len(level), 15)
    same = [("and", "or"), ("equal", "not_equal"), ("greater_than", "less_than"), ("greater_than", "greater_than_or_equal"), ("greater_than", "less_than_or_equal")]
    order = ["coalesce", "and", "equal", "greater_than", "not", "substruct", "dot"]
    bad = ["%s and %s are on different levels (%s, %s)" % (a, b, level.get(a), level.get(b)) for a, b in same if level.get(a) is None or level.get(a) != level.get(b)]
    for a, b in zip(order, order[1:]):
        if level.get(a) is None or level.get(b) is None or not level[a] < level[b]:
            bad.append("%s (level %s) does not bind looser than %s (level %s)" % (a, level.get(a), b, level.get(b)))
    for r, want in [("coalesce", "Right")] + [(x, "Left") for x in ("and", "or", "equal", "not_equal", "greater_than", "less_than", "greater_than_or_equal", "less_than_or_equal")]:
        if assoc.get(r) != want:
            bad.append("%s is %s-associative, the language defines %s" % (r, assoc.get(r), want))
    rep.check(not bad, "parse|precedence-table", "K7 table", "operator levels and associativity match the language's table (%d operators on %d levels)" % (len(level), len(ops)),
              "the Pratt parser's precedence table differs from the language's: %s. An unparenthesised expression such as `a || b && c` is then grouped, and evaluated, differently from what the language defines" % "; ".join(bad), f.site())
