"""C28 Compiled modules are deterministic and survive serialization.

Decided (structural):
 R1 K10+K3 determinism: (a) no HashMap/HashSet (std or hashbrown) occurs in any field type reachable
        from Module / ModuleV0 / Machine through the policy crates' own types; (b) in the compiler's
        library call graph below Compiler::compile no *iteration* method of a hash container is
        called (iter, keys, values, drain, into_iter, retain, ...; keyed lookups are fine) and
        nothing reads a clock, an RNG, or formats a pointer address.
 R2 K6  every field survives serde: for each struct reachable from ModuleV0 the derived
        Serialize writes as many fields as the struct declares (a skipped field would be lost on
        the round trip), and any field the serializer may omit (skip_serializing_if) is
        defaulted, not required, by the derived Deserialize of the same struct; no hand-written
        helper (`#[serde(with = ..)]`) is spliced into the derived impls.
 R3 K6  Machine::from_module consumes every field of ModuleV0: each ModuleV0 field flows into the
        Machine field of the same name (field coverage of the Machine aggregate).
Not decided: equality of execution results after a round trip (value-level)."""
import re
from rules.core import pat, k4
from rules.core.facts import Operand, strip_generics

CRATES = ["aranya_policy_compiler", "aranya_policy_module", "aranya_policy_ast", "aranya_policy_text", "aranya_policy_vm", "aranya_policy_lang", "aranya_id"]

HASHY = ("HashMap", "HashSet", "hashbrown", "hash_map", "hash_set", "FnvHashMap", "FxHashMap")
ITER_METHODS = {"iter", "iter_mut", "keys", "values", "values_mut", "into_keys", "into_values", "drain", "into_iter", "retain", "extract_if", "next"}
NONDET = ("time::Instant", "time::SystemTime", "rand::", "getrandom", "thread_rng", "RandomState::new", "fmt::Pointer")

ID_RE = re.compile(r"[A-Za-z_][A-Za-z0-9_]*(?:::[A-Za-z_][A-Za-z0-9_]*)+")


def reachable_adts(F, roots):
    seen = {}
    work = list(roots)
    while work:
        p = work.pop()
        if p in seen or p not in F.adts:
            continue
        a = F.adts[p]
        seen[p] = a
        for v in a["variants"]:
            for fld in v["fields"]:
                for m in ID_RE.findall(fld["ty"]):
                    if m in F.adts and m not in seen:
                        work.append(m)
    return seen


def run(F, rep, tier):
    rep.explanation = __doc__
    roots = ["aranya_policy_module::module::Module", "aranya_policy_module::module::ModuleV0", "aranya_policy_vm::machine::Machine"]
    for r in roots:
        if r not in F.adts:
            rep.anchor_missing("ADT %s" % r)
            return
    adts = reachable_adts(F, roots)
    rep.floor("types reachable from Module/ModuleV0/Machine", len(adts), 20)
    bad = []
    for p, a in adts.items():
        for v in a["variants"]:
            for fld in v["fields"]:
                if any(h in fld["ty"] for h in HASHY):
                    bad.append("%s.%s: %s" % (p, fld["name"], fld["ty"][:80]))
    rep.check(not bad, "types|no-hash-containers", "K10 type fact",
              "no hash container in %d types reachable from the module / machine types" % len(adts),
              "hash container in a serialised/compiled type (iteration order would leak into the module): %s" % bad[:4])
    # (b) compiler call graph
    comp = F.fn("aranya_policy_compiler::compile::Compiler::compile")
    cg = k4.CallGraph(F)
    order, seen, stats = cg.reach([comp], scope=["aranya_policy_compiler::"])
    rep.floor("compiler functions reached from Compiler::compile", len(order), 100)
    hits = []
    nondet = []
    keyed = 0
    it_ty = re.compile(r"(hash_map|hash::map|hash_set|hash::set|hashbrown::\w+)::(Iter|IterMut|Keys|Values|ValuesMut|IntoIter|Drain|IntoKeys|IntoValues|ExtractIf)\b")
    direct = re.compile(r"(HashMap|HashSet)::(iter|iter_mut|keys|values|values_mut|into_keys|into_values|drain|retain|extract_if)$")

    def outer_is_hash(ty):
        t = (ty or "").replace("&mut ", "").replace("&", "").strip()
        t = re.sub(r"^'\w+ ", "", t)
        return bool(re.match(r"^(core|std|hashbrown)::[\w:]*(HashMap|HashSet)<", t))
    for f in order:
        for c in f.calls:
            p = (c.path or "") + " " + (c.res or "")
            st = c.self_ty or ""
            if direct.search(c.path or "") or it_ty.search(p) or it_ty.search(st) or (c.name == "into_iter" and outer_is_hash(st)):
                hits.append("%s on %s in %s (%s)" % (c.path, st[:60], f.path, c.site()))
            elif any(h in (c.path or "") for h in HASHY):
                keyed += 1
            if any(n in (c.path or "") for n in NONDET) and "RandomState" not in (c.path or ""):
                nondet.append("%s in %s" % (c.path, f.path))
    rep.check(not hits, "compile|no-hash-iteration", "K3 who-may-call",
              "no iteration over a hash container below Compiler::compile (%d functions, %d keyed hash-container calls)" % (len(order), keyed),
              "hash-container iteration in the compiler (order is randomised per process): %s" % hits[:4])
    rep.check(not nondet, "compile|no-clock-or-rng", "K3 who-may-call", "no clock / RNG / pointer formatting below Compiler::compile", "non-deterministic source used by the compiler: %s" % nondet[:4])
    # R2 serde field coverage
    n = 0
    for p, a in sorted(adts.items()):
        if a["kind"] != "Struct" or not p.startswith(("aranya_policy_module::", "aranya_policy_ast::")):
            continue
        nf = len([x for x in a["variants"][0]["fields"] if "PhantomData" not in x["ty"]])
        sers = [f for f in F.fns if f.name == "serialize" and f.self_adt == p and f.trait and f.trait.endswith("ser::Serialize") and f.exp]
        if not sers or nf == 0:
            continue
        f = sers[0]
        fields = [c for c in f.calls if c.name in ("serialize_field", "serialize_element")]
        nt = [c for c in f.calls if c.name in ("serialize_newtype_struct",)]
        n += 1
        ok = len(fields) == nf or (nf == 1 and nt) or (nf == 1 and len(fields) == 0 and any(c.name == "serialize" for c in f.calls))
        rep.check(bool(ok), "serde|%s|all-fields-written" % p.split("::")[-1], "K6 field coverage",
                  "derived Serialize for %s writes %d of %d fields" % (p.split("::")[-1], len(fields) if not nt else 1, nf),
                  "derived Serialize for %s writes %d of %d fields (a field is skipped and would not survive a round trip)" % (p, len(fields), nf), f.site())
    rep.floor("derived Serialize impls examined", n, 8)
    # R2b a conditionally skipped field must be optional on the way back
    vis = {}
    for g in F.fns:
        if g.derived and g.name == "visit_map" and g.trait and g.trait.endswith("de::Visitor"):
            built = [st.rv[1].get("adt") for st in g.stmts() if st.rv_kind() == "agg" and st.rv[1].get("k") == "adt" and st.rv[1].get("adt") in adts]
            req = {str(c.args[0].const.get("dbg")).strip('"') for c in g.calls if c.name == "missing_field" and c.args and c.args[0].const is not None}
            for b in set(built):
                vis[b] = (g, req)
    nskip = 0
    for p, a in sorted(adts.items()):
        sers = [f for f in F.fns if f.name == "serialize" and f.self_adt == p and f.trait and f.trait.endswith("ser::Serialize") and f.exp]
        for f in sers[:1]:
            skipped = {str(c.args[-1].const.get("dbg")).strip('"') for c in f.calls if c.name == "skip_field" and c.args and c.args[-1].const is not None}
            if not skipped:
                continue
            nskip += len(skipped)
            g, req = vis.get(p, (None, set()))
            bad = sorted(skipped & req)
            rep.check(g is not None and not bad, "serde|%s|skipped-fields-are-optional" % p.split("::")[-1], "K5 sibling agreement",
                      "every field the derived Serialize may omit (%s) is defaulted by the derived Deserialize" % sorted(skipped),
                      "derived Serialize for %s may omit %s, but the derived Deserialize reports missing_field for %s: such a value does not survive a round trip" % (p, sorted(skipped), bad or "(no visit_map found)"),
                      f.site())
    # R2c no hand-written codec is spliced into the derived (de)serializers (#[serde(with/serialize_with/..)]):
    # the derive's own field-by-field code preserves order and shape by construction, a helper does not
    custom = []
    nder = 0
    for g in F.fns:
        if not g.derived or not g.trait or not ("ser::Serialize" in g.trait or "de::Visitor" in g.trait or "de::Deserialize" in g.trait or "de::DeserializeSeed" in g.trait):
            continue
        if not g.path.lstrip("<").startswith(("aranya_policy_module", "aranya_policy_ast")):
            continue
        nder += 1
        for c in g.calls:
            if c.path and c.path.startswith("aranya_"):
                h = F.fn_exact(c.path)
                if h is not None and not h.derived and not h.exp:
                    custom.append("%s (called from the derived %s at %s)" % (c.path, g.name, c.site()))
    rep.floor("derived serde functions of module/ast types examined", nder, 300)
    rep.check(not custom, "serde|no-hand-written-codec-in-derived-impls", "K3 who-may-call",
              "the derived Serialize/Deserialize impls of the module's types call only serde and other derived impls (%d functions)" % nder,
              "a hand-written codec is spliced into the derived (de)serializers of the module's types: %s. Unlike the derive's field-by-field code it cannot be shown to "
              "preserve order and shape (e.g. a map-based helper re-sorts struct fields), so the module may not survive a round trip" % "; ".join(sorted(set(custom))[:4]))
    # R3
    fm = F.fn("aranya_policy_vm::machine::Machine::from_module")
    mv0 = [x["name"] for x in F.adts["aranya_policy_module::module::ModuleV0"]["variants"][0]["fields"]]
    ag = [s for s in fm.stmts() if s.rv_kind() == "agg" and s.rv[1].get("adt", "").endswith("machine::Machine")]
    ok = len(ag) == 1
    cov = {}
    if ok:
        fl = ag[0].rv[1]["fields"]
        for name, o in zip(fl, ag[0].operands()):
            org = fm.origins(o, through_calls="*", max_depth=40) if o.const is None else set()
            cov[name] = sorted(t[6:] for t in org if t.startswith("field:") and t[6:] in mv0)
        used = {x for v in cov.values() for x in v}
        ok = used == set(mv0) and all(name in cov.get(name, []) for name in mv0 if name in fl)
    rep.check(ok, "from_module|field-coverage", "K6 field coverage",
              "every ModuleV0 field (%s) flows into the Machine field of the same name" % mv0,
              "Machine::from_module drops or mis-wires a ModuleV0 field: %s (ModuleV0 fields %s)" % (cov, mv0), fm.site())
