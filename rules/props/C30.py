"""C30 Facts and effects change only inside finish blocks.

Decided (structural, for every accepted policy):
 R1 K7  statement admissibility: in lower_statements the match on (statement kind, context) admits
        Create, Update, Delete, Emit and FunctionCall (calls to finish functions) only under
        StatementContext::Finish; every other combination falls to InvalidStatement; no other code
        constructs thir::StmtKind::{Create, Update, Delete, Emit}; the Finish arm is admitted only in
        CommandPolicy / CommandRecall and lowers its body under StatementContext::Finish.
 R2 K3  Instruction::{Create, Update, Delete, Emit} are emitted only from the arm of
        compile_typed_statement that handles the thir statement of the same name.
 R3 K9  StmtKind::Finish emits Instruction::Exit after its block: Check when compiled in a recall
        context, Normal otherwise (nothing of the enclosing policy block runs after `finish`).
 R4 K3  in the VM, MachineIO::{fact_insert, fact_delete, effect} are called only from the
        Create / Update / Delete / Emit handlers of RunState::step.
 R5 K7  Emit passes recall = true exactly on the CommandContext::Recall arm (false on Policy, error
        elsewhere).
 R6 K7  the contexts that admit writes admit nothing else but writes and finish-function calls.
 R7 K7  lower_expression applies the finish-expression gate in every context that admits writes.
Not decided: nothing structural; relies on C23/C24 for control flow inside the compiled code."""
from rules.core import pat
from rules.core.facts import Operand, PASS_THROUGH

CRATES = ["aranya_policy_compiler", "aranya_policy_ast", "aranya_policy_vm", "aranya_policy_module"]

WRITES = ("Create", "Update", "Delete", "Emit")


def admissibility(f):
    outer = [x for x in f.discr_switches("ast::StmtKind")]
    if len(outer) != 1:
        return None, None
    b, arms, other, st = outer[0]
    ctxs = {x[0]: x for x in f.discr_switches("StatementContext")}
    table = {}
    err_block = None
    for v, t in arms.items():
        bb = t
        hops = 0
        while bb not in ctxs and f.term(bb)[0] == "goto" and hops < 4 and not f.stmts(bb):
            bb = f.term(bb)[1]
            hops += 1
        if bb in ctxs:
            table[v] = sorted(ctxs[bb][1].keys())
            err_block = ctxs[bb][2]
        else:
            table[v] = ["*"]
    return table, err_block


def finish_contexts(F):
    """StatementContext variants entered (enter_statement_context) for finish blocks and finish functions"""
    out = set()
    for f in F.fns:
        if f.crate != "aranya_policy_compiler" or f.derived:
            continue
        for c in f.calls:
            if c.name == "enter_statement_context" and len(c.args) > 1 and c.args[1].place is not None:
                for k, st in f.backward_sources(c.args[1].place.local, through_calls=())[1]:
                    if k == "stmt" and st.rv_kind() == "agg" and st.rv[1].get("adt", "").endswith("StatementContext"):
                        v = st.rv[1].get("variant")
                        if v and v.startswith("Finish"):
                            out.add(v)
    return out


def run(F, rep, tier):
    rep.explanation = __doc__
    ls = F.fn("aranya_policy_compiler::compile::lower::lower_statements")
    table, err_block = admissibility(ls)
    if table is None:
        rep.anchor_missing("lower_statements: (kind, context) match not found")
        return
    rep.note("admissibility table: %s" % table)
    # "finish contexts" are not frozen by name: they are the contexts that (a) the body of a `finish` block /
    # a finish function is lowered under and (b) lower_expression gates with check_finish_expression (R7).
    finish_ctxs = finish_contexts(F)
    for v in WRITES + ("FunctionCall",):
        got = set(table.get(v) or [])
        rep.check(bool(got) and "*" not in got and got <= finish_ctxs, "lower|admit:%s" % v, "K7 admissibility table",
                  "StmtKind::%s is admitted only in finish contexts %s" % (v, sorted(got)),
                  "StmtKind::%s is admitted in contexts %s, finish contexts are %s: fact writes / effects / finish-function calls could run outside a finish block" % (v, sorted(got), sorted(finish_ctxs)), ls.site())
    rep.check(table.get("Finish") == ["CommandPolicy", "CommandRecall"], "lower|admit:Finish", "K7 admissibility table",
              "finish blocks are admitted only in command policy / recall blocks (%s)" % table.get("Finish"), site=ls.site())
    rep.floor("statement kinds in the table", len(table), 14)
    # default arm is the error
    ok = err_block is not None and any(s.rv_kind() == "agg" and s.rv[1].get("variant") == "InvalidStatement" for s in ls.stmts() if s.bb in ls.reachable(err_block))
    rep.check(ok, "lower|default-is-error", "K7 admissibility table", "every non-listed (kind, context) pair returns InvalidStatement", site=ls.site())
    # finish body lowered under Finish context
    fin_sw = [x for x in ls.discr_switches("ast::StmtKind")][0]
    ft = fin_sw[1].get("Finish")
    ok = False
    if ft is not None:
        reg = ls.reachable(ft, cut_blocks={err_block} if err_block is not None else set())
        esc = [c for c in ls.calls if c.bb in reg and c.name == "enter_statement_context"]
        rec = [c for c in ls.calls if c.bb in reg and c.name == "lower_statements"]
        ags = [s for s in ls.stmts() if s.bb in reg and s.rv_kind() == "agg" and s.rv[1].get("variant") == "Finish" and s.rv[1].get("adt", "").endswith("StatementContext")]
        ok = bool(esc) and bool(rec) and bool(ags) and all(ls.dominates(esc[0].bb, r.bb) for r in rec if ls.dominates(ft, r.bb))
    rep.check(ok, "lower|finish-body-context", "K1 must-pass-through", "the finish block's statements are lowered after entering StatementContext::Finish", site=ls.site())
    # constructors of thir write statements
    ctor = {}
    for f in F.fns:
        if f.crate != "aranya_policy_compiler" or f.derived:
            continue
        for s in f.stmts():
            if s.rv_kind() == "agg" and s.rv[1].get("adt", "").endswith("thir::StmtKind") and s.rv[1].get("variant") in WRITES:
                ctor.setdefault(s.rv[1]["variant"], set()).add(f.root or f.path)
    ok = set(ctor) == set(WRITES) and all(v == {ls.path} for v in ctor.values())
    rep.check(ok, "thir|write-statement-constructors", "K3 who-may-construct",
              "thir::StmtKind::{Create, Update, Delete, Emit} are built only in lower_statements", "thir write statements constructed elsewhere: %s" % ctor)
    # each is built under its own arm
    for v in WRITES:
        t = fin_sw[1].get(v)
        sites = [s for s in ls.stmts() if s.rv_kind() == "agg" and s.rv[1].get("adt", "").endswith("thir::StmtKind") and s.rv[1].get("variant") == v]
        rep.check(t is not None and bool(sites) and all(ls.dominates(t, s.bb) for s in sites), "thir|%s-under-own-arm" % v, "K7 admissibility table",
                  "thir::StmtKind::%s is produced only under the ast StmtKind::%s arm" % (v, v), site=ls.site())

    # R2 emission sites
    cts = F.fn("aranya_policy_compiler::compile::CompileState::compile_typed_statement")
    tsw = [x for x in cts.discr_switches("thir::StmtKind")]
    emit = {}
    for f in F.fns:
        if f.crate != "aranya_policy_compiler" or f.derived:
            continue
        for s in f.stmts():
            if s.rv_kind() == "agg" and s.rv[1].get("adt", "").endswith("instructions::Instruction") and s.rv[1].get("variant") in WRITES:
                emit.setdefault(s.rv[1]["variant"], []).append((f, s))
    ok = set(emit) == set(WRITES) and len(tsw) >= 1
    if ok:
        arms = tsw[0][1]
        for v, sites in emit.items():
            for f, s in sites:
                if f is not cts or v not in arms or not cts.dominates(arms[v], s.bb):
                    ok = False
    rep.check(ok, "emit|write-instructions-only-from-own-arm", "K3 who-may-construct",
              "Instruction::{Create, Update, Delete, Emit} are emitted only under compile_typed_statement's arm of the same name",
              "a fact/effect instruction is emitted outside its statement arm: %s" % {v: [(f.path.split('::')[-1]) for f, s in x] for v, x in emit.items()}, cts.site())
    # R3 finish exit
    if tsw and "Finish" in tsw[0][1]:
        reg = cts.dominated_region(tsw[0][1]["Finish"])
        exits = [s for s in cts.stmts() if s.bb in reg and s.rv_kind() == "agg" and s.rv[1].get("variant") == "Exit"]
        blocks = [c for c in cts.calls if c.bb in reg and c.name in ("compile_typed_statements", "compile_typed_statement")]
        apps = [c for c in cts.calls if c.bb in reg and c.name == "append_instruction"]
        ok = len(exits) == 1 and bool(blocks) and all(cts.dominates(c.bb, exits[0].bb) for c in blocks)
        if ok:
            # the exit reason: Check on the CommandRecall arm, Normal otherwise
            rs = {}
            for s in cts.stmts():
                if s.bb in reg and s.rv_kind() == "agg" and s.rv[1].get("adt", "").endswith("ExitReason"):
                    rs[s.rv[1]["variant"]] = s
            csw = [x for x in cts.discr_switches("StatementContext") if x[0] in reg]
            ok = set(rs) == {"Check", "Normal"} and bool(csw)
            if ok:
                a = csw[0][1]
                ok = "CommandRecall" in a and cts.dominates(a["CommandRecall"], rs["Check"].bb) and not cts.dominates(a["CommandRecall"], rs["Normal"].bb)
        rep.check(ok, "emit|finish-then-exit", "K9 emission template",
                  "`finish` compiles its block and then emits Exit(Check in recall / Normal otherwise)",
                  "the Finish statement no longer ends policy evaluation with the right Exit", cts.site())
    else:
        rep.anchor_missing("compile_typed_statement: Finish arm")
    # R4 VM
    step = F.fn("aranya_policy_vm::machine::RunState::step")
    sws = step.discr_switches("instructions::Instruction")
    outer = [sw for sw in sws if all(step.dominates(sw[0], o[0]) for o in sws)][0]
    arms = outer[1]
    allowed = {"fact_insert": {"Create", "Update"}, "fact_delete": {"Delete", "Update"}, "effect": {"Emit"}}
    found = {}
    bad = []
    for f in F.fns:
        if f.crate != "aranya_policy_vm" or f.file.endswith(("tests.rs", "/tests/io.rs", "io.rs")) and "tests" in f.file:
            continue
        for c in f.calls:
            if c.name in allowed and c.trait and c.trait.endswith("io::MachineIO"):
                if f is not step and (f.root or "") != step.path:
                    bad.append("%s in %s" % (c.name, f.path))
                    continue
                arm = [v for v, t in arms.items() if step.dominates(t, c.bb)]
                found.setdefault(c.name, set()).update(arm)
                if not arm or not set(arm) <= allowed[c.name]:
                    bad.append("%s under %s" % (c.name, arm))
    rep.check(not bad and found == allowed, "vm|io-writes-only-in-write-handlers", "K3 who-may-call",
              "fact_insert/fact_delete/effect are called only from the Create/Update/Delete/Emit handlers: %s" % {k: sorted(v) for k, v in found.items()},
              "MachineIO writes outside the write handlers: %s (found %s)" % (bad, found), step.site())
    # R5 recall flag
    reg = step.dominated_region(arms["Emit"])
    eff = [c for c in step.calls if c.bb in reg and c.name == "effect"]
    csw = [x for x in step.discr_switches("context::CommandContext") if x[0] in reg]
    ok = len(eff) == 1 and len(csw) == 1
    tab = {}
    if ok:
        for v, t in csw[0][1].items():
            r2 = step.dominated_region(t)
            tup = [s for s in step.stmts() if s.bb in r2 and s.rv_kind() == "agg" and s.rv[1].get("k") == "tuple" and len(s.rv[2]) == 2]
            for s in tup:
                tab[v] = s.operands()[1].val
        ok = tab == {"Policy": 0, "Recall": 1}
        other = csw[0][2]
        ok = ok and any(c.name in ("err", "from_position") for c in step.calls if c.bb in step.reachable(other, cut_blocks=set(csw[0][1].values()))) and eff[0].bb not in step.reachable(other, cut_blocks=set(csw[0][1].values()))
    rep.check(ok, "vm|emit-recall-flag", "K7 table", "Emit: recall flag by context %s; any other context is an error" % tab,
              "Emit's recalled flag no longer matches the command context: %s" % tab, step.site())
    finish_is_infallible(F, rep, table)


def finish_is_infallible(F, rep, table):
    """R6/R7: 'a panic changes no facts' needs more than 'writes only in finish': once a write has run,
    nothing later in the finish block may stop the command. R6: the only statements admitted in the contexts
    that admit writes are the writes themselves and calls of finish functions. R7: in every such context
    lower_expression applies the finish-expression gate (only infallible expressions)."""
    ls = F.fn("aranya_policy_compiler::compile::lower::lower_statements")
    write_ctxs = set()
    for v in WRITES:
        write_ctxs |= set(table.get(v) or [])
    admitted = sorted(k for k, ctxs in table.items() if k != "Finish" and (("*" in ctxs) or (set(ctxs) & write_ctxs)))
    extra = [k for k in admitted if k not in WRITES + ("FunctionCall",)]
    rep.check(not extra, "lower|finish-admits-only-writes", "K7 admissibility table",
              "the contexts that admit fact writes and effects (%s) admit only %s" % (sorted(write_ctxs), admitted),
              "statement kinds %s are admitted inside finish blocks / finish functions next to the writes: a statement that can stop the command (debug_assert compiles to "
              "Exit(Panic) in debug mode) after a `create`/`emit` has run makes a panicking command change facts" % extra, ls.site())
    le = F.fn("aranya_policy_compiler::compile::lower::lower_expression")
    gate = [c for c in le.calls if c.name == "check_finish_expression"]
    gated = set()
    for x in le.discr_switches("StatementContext"):
        for v in x[1]:
            ve = le.variant_edge(x, v)
            if ve and gate and any(le.dominates(ve[0], g.bb) for g in gate):
                gated.add(v)
    rep.check(bool(gate) and write_ctxs <= gated, "lower|finish-expression-gate-covers-write-contexts", "K7 admissibility table",
              "lower_expression applies check_finish_expression in every context that admits writes (%s)" % sorted(gated),
              "lower_expression applies the finish-expression gate only in %s but writes are admitted in %s: fallible expressions (function calls, todo(), queries) are accepted "
              "between the writes of %s" % (sorted(gated), sorted(write_ctxs), sorted(write_ctxs - gated)), le.site())
