"""C42 AFC shared-memory channel tables stay consistent.

Decided (structural):
 R1 K1+K5 both copies receive the same mutation: the writer skeleton of add / remove / remove_all /
        remove_if (see C41-R1), each mutation under that side's lock.
 R2 K3  next_chan_id is modified only by fetch_add(1) in WriteState::add (ids are never reused) and
        initialised in SharedMem's constructor.
 R3 K2  add returns OutOfSpace on the `len >= cap` edge before any list write; `len += 1` happens only
        after ShmChan::init and the generation bump, on both sides.
 R4 K10 one writer thread: WriteState has no Sync impl and holds a !Sync marker/cell.
 R5 K2  offsets loaded from shared memory are validated before use: SharedMem::side matches the
        offset against side_a / side_b and errors otherwise.
Not decided: the channel set a reader observes under all interleavings (needs a memory model)."""
from rules.core import afc, pat, atomics
from rules.core.facts import Operand, Place

CRATES = ["aranya_fast_channels"]
THOROUGH_CONFIGS = ["cas"]   # thorough tier: the same rules on the cas_mutex build


def run(F, rep, tier):
    rep.explanation = __doc__
    afc.writer_skeleton(F, rep, "C42")
    # R2
    writers = {}
    for f in F.fns:
        if f.crate != "aranya_fast_channels" or "/tests" in f.file or f.file.endswith("tests.rs"):
            continue
        for o in atomics.atomic_ops(f):
            if "next_chan_id" in o.fields and o.name != "load":
                writers.setdefault(f.root or f.path, []).append((o.name, o.const_values()[:1]))
    add = afc.impl_fn(F, afc.W, "AranyaState", "add")
    ok = list(writers) == [add.path] and writers[add.path] == [("fetch_add", [1])]
    rep.check(ok, "next_chan_id|writers", "K3 who-may-write", "next_chan_id is only advanced by fetch_add(1) in WriteState::add (%s)" % writers,
              "next_chan_id is written elsewhere / not by fetch_add(1): %s" % writers)
    # R3
    cs = [c for c in add.cmp_switches() if c["op"] in ("Ge", "Lt", "Gt", "Le") and ("field:len" in add.origins(c["a"], through_calls=()) or "field:len" in add.origins(c["b"], through_calls=()))
          and ("field:cap" in add.origins(c["a"], through_calls=()) or "field:cap" in add.origins(c["b"], through_calls=()))]
    oos = [s for s in add.stmts() if s.rv_kind() == "agg" and s.rv[1].get("variant") == "OutOfSpace"]
    inits = [c for c in add.calls if c.name == "init" and "ShmChan" in (c.path or "")]
    bumps = [o for o in atomics.atomic_ops(add) if o.name == "fetch_add" and "generation" in o.fields]
    lens = [c for c in add.calls if c.name == "add_assign" and "field:len" in add.origins(c.args[0], through_calls=()) and c.args[1].val == 1]
    ok = len(cs) >= 1 and bool(oos) and len(inits) == 2 and len(bumps) == 2 and len(lens) == 2
    if ok:
        c = cs[0]
        full = c["t"] if c["op"] in ("Ge", "Gt") else c["f"]
        room = c["f"] if c["op"] in ("Ge", "Gt") else c["t"]
        ok = all(add.dominates(full, s.bb) for s in oos) and all(add.dominates(room, x.bb) for x in inits) and not any(x.bb in add.reachable(full, cut_blocks={c["bb"]}) for x in inits)
        for ls in lens:
            ok = ok and any(add.dominates(i.bb, ls.bb) for i in inits) and any(add.dominates(b.bb, ls.bb) for b in bumps)
    rep.check(ok, "add|capacity-and-publication-order", "K2 guarded-by",
              "OutOfSpace on len >= cap before any write; on each side ShmChan::init and the generation bump precede len += 1",
              "WriteState::add writes past capacity or publishes the new length before the entry/generation are in place", add.site())
    # R4
    syncs = [i for i in F.impls_of("shm::write::WriteState", "marker::Sync")]
    adt = F.adt("aranya_fast_channels::shm::write::WriteState")
    tys = " ".join(x["ty"] for x in adt["variants"][0]["fields"])
    rep.check(not syncs, "WriteState|no-sync-impl", "K10 type fact", "there is no `unsafe impl Sync for WriteState`")
    rep.check("Cell" in tys or "*const" in tys or "*mut" in tys or "PhantomData" in tys, "WriteState|not-sync-marker", "K10 type fact",
              "WriteState holds a !Sync component (%s)" % tys[:160], "WriteState no longer contains a !Sync marker: two threads could share the single writer")
    # R5
    OFF = "aranya_fast_channels::shm::shared::Offset"
    n = 0
    allowed = ("read_off", "write_off", "swap_offsets")
    for f in F.fns:
        if f.crate != "aranya_fast_channels" or f.derived:
            continue
        for st in f.stmts():
            if st.rv_kind() == "agg" and st.rv[1].get("adt") == OFF:
                n += 1
                vo = [c for c in f.calls if c.name == "valid_offset"]
                ok = f.name in allowed and len(vo) == 1
                if ok:
                    oe = f.outcome_edges(vo[0], passthrough=("Not::not",))
                    # `!valid` may be a Not statement feeding the likely!/unlikely! switch
                    tgt = None
                    if "true" in oe:
                        tgt = oe["true"][1]
                    else:
                        for s2 in f.stmts():
                            if s2.rv_kind() == "un" and s2.rv[1] == "Not" and Operand(s2.rv[2]).place is not None and Operand(s2.rv[2]).place.local == vo[0].dest.local:
                                for b in range(f.nblocks):
                                    sw = f.switch_on(b)
                                    if sw and sw[0].place is not None and sw[0].place.local == s2.place.local:
                                        te, fe = (b, sw[2] if 0 in sw[1] else sw[1].get(1)), (b, sw[1].get(0, sw[2]))
                                        r2 = f._bool_remat(te, fe)
                                        if r2:
                                            te, fe = r2
                                        tgt = fe[1]   # !valid == false  <=> valid
                    ok = tgt is not None and f.dominates(tgt, st.bb)
                    # the validated value is the one wrapped
                    ok = ok and bool(f.backward_sources(st.operands()[0].place.local)[0] & f.backward_sources(vo[0].args[1].place.local)[0])
                rep.check(ok, "Offset|validated:%s" % f.name, "K2 guarded-by",
                          "%s wraps a value loaded from shared memory into Offset only on the valid_offset(..) == true edge" % f.name,
                          "an unvalidated offset from shared memory is wrapped into Offset in %s" % f.path, f.site(st.line))
    rep.floor("Offset construction sites", n, 3)
    vf = [f for f in F.fns if f.name == "valid_offset" and f.crate == "aranya_fast_channels"]
    if len(vf) == 1:
        f = vf[0]
        flds = set()
        for st in f.stmts():
            if st.rv_kind() == "bin" and st.rv[1] == "Eq":
                for o in (Operand(st.rv[2]), Operand(st.rv[3])):
                    for t in f.origins(o, through_calls=()):
                        if t in ("field:side_a", "field:side_b"):
                            flds.add(t)
        rep.check(flds == {"field:side_a", "field:side_b"}, "valid_offset|table", "K7 table", "valid_offset(off) = off == side_a || off == side_b", site=f.site())
    else:
        rep.anchor_missing("valid_offset")
    side = [f for f in F.fns if f.name == "side" and f.self_adt and f.self_adt.endswith("shm::shared::SharedMem") and not f.trait]
    rep.check(len(side) == 1 and "Offset" in side[0].local_ty(2), "SharedMem::side|takes-Offset", "K10 type fact", "pointer arithmetic in SharedMem::side takes the validated Offset newtype")
