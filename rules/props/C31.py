"""C31 The policy compiler CLI honours validation.

Decided (structural):
 R1 K2  polarity of validate(): the boolean it returns is P exactly when a TraceFailure was
        iterated (the constant written inside the failure loop); every other source of the
        return value is the opposite constant.
 R2 K2  every caller treats the P outcome as failure: in policy-compiler's main the P edge
        leads to ExitCode::FAILURE and cannot reach File::create / into_writer /
        ExitCode::SUCCESS, the other edge reaches them; validate is skipped only on the
        `no_validate` edge, and every SUCCESS exit (the --stub-ffi one too) lies behind one of the
        two. policy-runner: the P edge returns Err and cannot reach
        Machine::from_module.
 R3 K2  parse and compile errors return ExitCode::FAILURE and cannot reach the writer.
Not decided: what validate()'s analyzers accept."""
from rules.core.facts import Operand

CRATES = ["aranya_policy_compiler", "policy_compiler", "aranya_policy_runner"]


def const_assigns(f, local):
    """[(stmt, value)] for `local = const <bool/int>` statements."""
    out = []
    for s in f.stmts():
        if s.place is not None and s.place.local == local and not s.place.proj and s.rv_kind() == "use":
            o = Operand(s.rv[1])
            if o.const is not None:
                out.append((s, o))
    return out


def exit_assigns(f, which):
    return [s for s in f.stmts() if s.place is not None and s.place.local == 0 and not s.place.proj
            and s.rv_kind() == "use" and Operand(s.rv[1]).const is not None
            and (Operand(s.rv[1]).const.get("dbg") or "").endswith("ExitCode::" + which)]


def run(F, rep, tier):
    rep.explanation = __doc__
    v = F.fn("aranya_policy_compiler::validate::validate")
    # --- R1
    nexts = [c for c in v.calls if c.is_("Iterator::next") and "TraceFailure" in (c.self_ty or "")]
    if len(nexts) != 1:
        rep.anchor_missing("validate: expected one loop over TraceFailure, found %d" % len(nexts))
        return
    oe = v.outcome_edges(nexts[0])
    if "Some" not in oe:
        rep.anchor_missing("validate: failure loop has no Some edge")
        return
    some_bb = oe["Some"][1]
    # the return value's sources
    ret_defs = [s for s in v.stmts() if s.place is not None and s.place.local == 0 and not s.place.proj]
    var = None
    consts = []
    for s in ret_defs:
        o = Operand(s.rv[1]) if s.rv_kind() == "use" else None
        if o is None:
            rep.violation("validate|return-source", "K2 polarity", "unrecognised source of validate()'s return value", v.site(s.line))
            return
        if o.const is not None:
            # a tracer-internal error (trace() returned Err) is not "a failure was reported": the
            # property does not say which way it must go, so either constant is accepted there
            tr = [c for c in v.calls if c.name == "trace"]
            te = v.outcome_edges(tr[0]).get("Err") if len(tr) == 1 else None
            if te is not None and v.dominates(te[1], s.bb):
                continue
            consts.append((s, o.val))
        elif o.place is not None and not o.place.proj:
            var = o.place.local
    if var is None:
        rep.anchor_missing("validate: no result variable")
        return
    P = None
    ok = True
    for s, o in const_assigns(v, var):
        inside = v.dominates(some_bb, s.bb)
        if inside:
            if P is None:
                P = o.val
            elif P != o.val:
                ok = False
        else:
            consts.append((s, o.val))
    if P is None:
        rep.violation("validate|no-failure-write", "K2 polarity", "the failure loop does not write the result variable", v.site())
        return
    others = {val for _, val in consts}
    rep.check(ok and others == {1 - P}, "validate|polarity", "K2 polarity",
              "validate() returns %s exactly when a TraceFailure was reported; all other sources are %s" % (bool(P), bool(1 - P)),
              "validate()'s return value is not a function of 'a failure was reported': in-loop constant %s, other sources %s" % (P, sorted(others)),
              v.site())
    # every iteration writes it: from the Some edge, `next` cannot be reached again without passing the write
    writes = {s.bb for s, o in const_assigns(v, var) if v.dominates(some_bb, s.bb)}
    back = v.reachable(some_bb, cut_blocks=writes)
    rep.check(nexts[0].bb not in back and not any(b in back for b in v.returns()), "validate|every-failure-counts", "K1 must-pass-through",
              "every iteration of the failure loop sets the result before the next iteration or return", site=v.site())
    pedge = "true" if P else "false"
    nedge = "false" if P else "true"

    # --- R2 callers
    callers = F.callers_of("aranya_policy_compiler::validate::validate")
    rep.floor("callers of validate()", len(callers), 2)
    for f, c in callers:
        oe = f.outcome_edges(c)
        if pedge not in oe or nedge not in oe:
            rep.violation("%s|validate-result-untested" % f.path, "K2 polarity", "result of validate() is not branched on", c.site())
            continue
        T = oe[pedge][1]
        N = oe[nedge][1]
        regT = f.reachable(T)
        regN = f.reachable(N)
        if f.path.endswith("policy_compiler::main"):
            fail = {s.bb for s in exit_assigns(f, "FAILURE")}
            succ = {s.bb for s in exit_assigns(f, "SUCCESS")}
            sinks = {x.bb for x in f.calls if x.is_("fs::File::create", "ciborium::into_writer", "ser::into_writer")}
            rep.floor("main: writer calls", len(sinks), 2)
            rep.check(bool(fail & regT) and not (succ & regT) and not (sinks & regT), "main|failure-edge", "K2 polarity",
                      "the `validation failed` edge (validate()==%s) sets ExitCode::FAILURE and cannot reach the module writer or SUCCESS" % bool(P),
                      "policy-compiler main: the edge on which validate() reports failure (== %s) reaches the writer/SUCCESS or never sets FAILURE" % bool(P),
                      c.site())
            rep.check(bool(sinks & regN) and bool(succ & regN), "main|success-edge", "K2 polarity",
                      "the `validation passed` edge reaches File::create/into_writer and ExitCode::SUCCESS",
                      "policy-compiler main: a policy that passes validation cannot reach the writer", c.site())
            # validate skipped only via no_validate
            nv = None
            for b in range(f.nblocks):
                sw = f.switch_on(b)
                if sw and sw[0].place is not None:
                    for kind, d in f.defs().get(sw[0].place.local, []):
                        if kind == "stmt" and d.rv_kind() == "use":
                            o = Operand(d.rv[1])
                            if o.place is not None and o.place.last_field() == "no_validate":
                                nv = (b, sw[1].get(0), sw[2])
            rep.check(nv is not None and nv[1] is not None and f.dominates(nv[1], c.bb)
                      and c.bb not in f.reachable(nv[2], cut_blocks={nv[0]}),
                      "main|no_validate-guard", "K2 guarded-by",
                      "validate() runs on the `no_validate == false` edge and only there", site=c.site())
            # writer reachable only through validate-pass edge or no_validate edge
            if nv is not None:
                cut = {(oe[nedge][0], N), (nv[0], nv[2])}
                reach_wo = f.reachable(0, cut_edges=cut)
                rep.check(not (sinks & reach_wo), "main|writer-guarded", "K2 guarded-by",
                          "File::create/into_writer are reachable only through `validation passed` or `--no-validate`",
                          site=c.site())
                rep.check(bool(succ) and not (succ & reach_wo), "main|success-guarded", "K2 guarded-by",
                          "every ExitCode::SUCCESS exit of main (including --stub-ffi's) is reachable only through `validation passed` or `--no-validate`",
                          "policy-compiler main can exit with ExitCode::SUCCESS on a path that neither passed validate() nor had --no-validate (e.g. an early "
                          "`--stub-ffi` return placed before the validation): a policy that fails validation is reported as fine", c.site())
        else:
            errs = {s.bb for s in f.stmts() if s.rv_kind() == "agg" and s.rv[1].get("variant") == "Err" and s.place.local == 0}
            sinks = {x.bb for x in f.calls if x.is_("Machine::from_module")}
            rep.floor("%s: from_module calls" % f.name, len(sinks), 1)
            rep.check(bool(errs & regT) and not (sinks & regT) and bool(sinks & regN), "%s|failure-edge" % f.path, "K2 polarity",
                      "validate()==%s returns Err and cannot reach Machine::from_module; the other edge reaches it" % bool(P),
                      site=c.site())

    # --- R3 parse / compile errors
    m = F.fn("policy_compiler::main")
    sinks = {x.bb for x in m.calls if x.is_("fs::File::create", "ciborium::into_writer", "ser::into_writer")}
    fail = {s.bb for s in exit_assigns(m, "FAILURE")}
    n = 0
    for pat in ("parse_policy_document", "Compiler::compile"):
        for c in m.calls_to(pat):
            oe = m.outcome_edges(c)
            if "Err" not in oe:
                rep.violation("main|%s-untested" % pat, "K2 guarded-by", "result of %s is not matched" % pat, c.site())
                continue
            n += 1
            reg = m.reachable(oe["Err"][1])
            rep.check(bool(fail & reg) and not (sinks & reg), "main|%s-err" % pat, "K2 guarded-by",
                      "the Err arm of %s sets ExitCode::FAILURE and cannot reach the writer" % pat, site=c.site())
            # and the writer is only reachable through the Ok edge
            reach_wo = m.reachable(0, cut_edges={(oe["Ok"][0], oe["Ok"][1])}) if "Ok" in oe else set()
            rep.check("Ok" in oe and not (sinks & reach_wo), "main|%s-ok-dominates-writer" % pat, "K2 guarded-by",
                      "the writer is reachable only through the Ok arm of %s" % pat, site=c.site())
    rep.floor("parse/compile result matches in main", n, 2)
